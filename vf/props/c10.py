"""C10 -- the page store returns the latest version of every page under every spelling.

Oracle: recorded operation histories with unique version-stamped bodies vs a sequential model
written from the statement (vf/ref/c10_model.py).  Every read (get_page / page_exists /
get_page_body / get_page_resolve_redirect / expand("{{T}}") / read through a second context on the
same file) is compared with the model; a disagreement is diagnosed by intervention
(get_page.cache_clear() + the same read again) and, if that does not cure it, delta-minimised
(drop operations, retarget the read, drop spelling / stored-form features, move to the other
namespace class) so that the signature names the mechanism.

Workload: bounded-exhaustive histories over a 31-symbol concrete alphabet (length <=3 quick,
<=4 thorough) + random histories (length 1..40) over {0, Template, Module, Template talk,
Wiktionary} x 4 base names x spelling variants.
"""
from __future__ import annotations

import itertools
import json
import os
import random

from vf.core.obs import Obs, cpu_guard, CpuBudget, exc_sig
from vf.core import anchors
from vf.ref.c10_model import Model, NS, SKIP, agree, page_tuple, versions_in

LEVEL = "exploration"
RULE = ("case = one operation history over {add (canonical / prefix omitted / stored with '_'), overwrite, add redirect "
        "(with/without body; target canonical/bare/underscored; to absent, to self, chains), get_page, page_exists, "
        "get_page_body, get_page_resolve_redirect (each also with namespace_id=None on the full title under every spelling of "
        "the prefix), expand('{{T}}'), get_page(full title, None), commit, reopen (close + "
        "Wtp(db_path)), peek (second Wtp on the same file)} with unique bodies '(vN)'; every history ends with a read sweep "
        "over the keys it wrote. Part E: ALL histories of length 1..L (L=3 quick, 4 thorough) over a 31-symbol concrete "
        "alphabet; part R: seeded random histories of length 1..40 over 5 namespaces x base names built from a first letter (derived from the Unicode case tables: 7 ASCII incl. "
        "M/a/i/n, 12 whose upper case sorts before and 19 whose upper case sorts after the lower case) and 6 tails, stored in "
        "the upper-cased form, the lower-case form or both; main-namespace pages also added / read / redirected to as "
        "'Main:...'; the exhaustive alphabet is run with a first-letter parameter rotating over the same letters; x spelling variants "
        "(prefix canonical/omitted/lower/upper/mixed/alias/key, lower-case first letter, '_' for blanks, case-mangled second "
        "letter). distinct = distinct operation sequence; non-trivial = contains a read of a key after a write of that key")
ASSUMPTIONS = [
    "titles are added under every spelling of the prefix (canonical, omitted, alias, other case; 'Main:' for the main namespace); "
    "the returned title may be the canonical full title or the title as passed",
    "'main:' in another case: result not compared (the statement makes the prefix case-insensitive, the pinned code only knows 'Main:'); existence == lookup still is",
    "a redirect target carrying the prefix of another (non-main) namespace names a page of that namespace; a target without "
    "prefix is looked up in the redirect's namespace; 'Main:' targets of non-main redirects are not compared; "
    "when the target is itself a redirect only the body (None) is compared; "
    "a lower-case redirect target that is a redirect while its upper-cased twin is a page is not compared",
    "expand('{{X}}') is used as a read only in spellings where the expander's own namespace inference is unambiguous "
    "(Template: any spelling; main: '{{:X}}'; other namespaces: canonical key prefix)",
    "a second context on the same file is compared only for keys whose latest version was committed (uncommitted content is unspecified)",
    "histories share one database per ~25 histories; each history uses titles with a private numeric suffix, so histories cannot interact",
    "namespace_id=None: the prefix of the full title (given, aliased, any case) selects the namespace and that namespace's "
    "rules apply to the rest; no prefix = main namespace; for prefix-less redirect targets of a non-main redirect only "
    "'page_exists == (get_page is not None)' with the same arguments is asserted",
    "intervention used for diagnosis only: Wtp.get_page.cache_clear() when that attribute exists",
]
WALL = {"quick": 600, "thorough": 3000}

def derive_letters():
    """First letters for base names, derived from the Unicode case tables: lower-case letters whose
    upper-case form is one other character, split by whether that form has the higher or the lower code
    point (= UTF-8 / SQLite BINARY order) -- both orders occur (y-diaeresis, micro sign, Georgian, IPA ...)."""
    import unicodedata
    hi, lo = [], []
    for cp in range(0x80, 0x2D30):
        c = chr(cp)
        u = c.upper()
        if u != c and len(u) == 1 and unicodedata.category(c) == "Ll":
            (hi if ord(u) > cp else lo).append(c)
    ascii_ = list("fqmainx")        # incl. the letters of the main namespace's own prefix
    return ascii_ + lo[::61] + hi[::8]


LETTERS = derive_letters()
TAILS = ["oo bar", "ux", "ain Page", "ai", " b", "nia i"]     # tails also built from the letters of 'Main:'
BASES = ["Foo bar", "Qux", "qux", "Éa b"]                      # fallback universe (replayed old witnesses)


def stems(rng, k):
    """k base-name stems -> list of base names: the upper-cased form, the lower-case form, or both."""
    out = []
    for _ in range(k):
        c = rng.choice(LETTERS)
        t = rng.choice(TAILS)
        r = rng.random()
        if rng.random() < 0.1:
            out.append("Main:" + c.upper() + t)      # a title whose own text starts with 'Main:'
            continue
        if r < 0.5:
            out += [c.upper() + t, c + t]
        elif r < 0.85:
            out.append(c.upper() + t)
        else:
            out.append(c + t)
    return out


def instantiate(ops, c):
    """The exhaustive alphabet is written with first letters F/f and Q/q; run it with first letter c / c.upper()."""
    def nm(b):
        return (c.upper() if b[:1].isupper() else c) + b[1:]
    out = []
    for o in ops:
        if "b" in o:
            o = dict(o, b=nm(o["b"]))
            if "tb" in o:
                o["tb"] = nm(o["tb"])
        out.append(o)
    return out
NSS = [0, 10, 828, 11, 4]
READS = ("get", "exists", "body", "resolve", "expand", "getfull")
SCALE = float(os.environ.get("VERIF_C10_SCALE", "1"))


def floors(tier):
    return {"oracle.read": 20000, "oracle.exists-agrees-with-lookup": 1000, "oracle.peek-key": 200,
            "counters.read_after_write_after_read": 500, "counters.op.reopen": 50, "counters.op.peek": 50,
            "counters.op.commit": 50, "counters.hist.exhaustive": 1000, "counters.hist.random": 500,
            "counters.memo_hits": 1, "oracle.exists-agrees-with-lookup.ns-None": 300, "counters.read_ns_none_compared": 1000,
            "counters.read_ns_none.get": 200, "counters.read_ns_none.exists": 200, "counters.read_ns_none.body": 200,
            "counters.read_ns_none.resolve": 200, "counters.add_via_alias_or_other_case_prefix": 300,
            "counters.redirect_to_other_namespace": 300, "counters.read_ns_none_prefix_or_first_letter_not_canonical": 1000,
            "counters.add_title_starting_with_Main_outside_main": 30, "counters.read_title_starting_with_Main_outside_main": 60, "counters.add_via_Main_prefix": 500, "counters.read_via_Main_prefix": 500,
            "counters.write_with_case_twin_stored": 500, "counters.read_with_case_twin_stored": 1000,
            "counters.read_with_case_twin_stored.upper_sorts_after_lower": 200, "sets.first_letters": 30, "sets.spellings": 40, "sets.namespaces": 5,
            "anchors.Wtp.get_page": 10000, "anchors.Wtp.add_page": 5000, "anchors.Wtp.page_exists": 1000,
            "anchors.Wtp.get_page_body": 1000, "anchors.Wtp.get_page_resolve_redirect": 1000,
            "anchors.Wtp.create_db": 100, "anchors.Wtp.close_db_conn": 100, "nontrivial": 3000}


def shards(tier, seed):
    n = 16
    nrand = {"quick": 2000, "thorough": int(100000 * SCALE)}[tier]
    exh = {"quick": 3, "thorough": 4 if SCALE >= 0.5 else 3}[tier]
    return [{"seed": seed * 1000 + i, "idx": i, "nsh": n, "exh_len": exh, "n_random": nrand // n} for i in range(n)]


def exhaustive(tier, total):
    want = sum(len(ALPHABET) ** k for k in range(1, {"quick": 3, "thorough": 4 if SCALE >= 0.5 else 3}[tier] + 1))
    return total["counters"].get("hist.exhaustive", 0) == want


# ------------------------------------------------------------------------------------------
# symbolic operations -> concrete strings

def prefix_of(ns, pf):
    if not ns:
        # the main namespace's own prefix, given ('Main:') or given in another case
        return {"main": "Main:", "mainlc": "main:"}.get(pf, "")
    if pf == "omit":
        return ""
    name, others = NS[ns]
    if pf == "canon":
        return name + ":"
    if pf == "lower":
        return name.lower() + ":"
    if pf == "upper":
        return name.upper() + ":"
    if pf == "mixed":
        return name.swapcase() + ":"
    if pf == "alias0" and others:
        return others[0] + ":"
    if pf == "alias0lc" and others:
        return others[0].lower() + ":"
    if pf == "alias1" and len(others) > 1:
        return others[1] + ":"
    return name + ":"


def pf_choices(ns):
    if not ns:
        return ["omit", "omit", "main", "main", "mainlc"]
    out = ["canon", "omit", "lower", "upper", "mixed"]
    others = NS[ns][1]
    if others:
        out += ["alias0", "alias0lc"]
    if len(others) > 1:
        out.append("alias1")
    return out


def spelled(op, sfx):
    """Concrete title string of a read op."""
    sp = op.get("sp", {})
    name = op["b"] + sfx
    if sp.get("cm"):
        name = name[0] + name[1].swapcase() + name[2:]
    if sp.get("lc"):
        name = name[:1].lower() + name[1:]
    t = prefix_of(op["ns"], sp.get("pf", "canon")) + name
    if sp.get("us"):
        t = t.replace(" ", "_")
    return t


def add_title(op, sfx):
    name = op["b"] + sfx
    if op.get("us"):
        name = name.replace(" ", "_")
    if not op["ns"]:
        return ("Main:" if op.get("pf") == "main" else "") + name
    pf = op.get("pf", "canon")
    return ("" if pf == "bare" else prefix_of(op["ns"], pf)) + name


def target_title(op, sfx):
    ns = op.get("tns", op["ns"])        # tns: the target lives in another (non-main) namespace
    name = op["tb"] + sfx
    tf = op.get("tf", "canon")
    if tf == "bare":
        return name
    if tf == "main":
        return "Main:" + name
    t = prefix_of(ns, "canon") + name
    return t.replace(" ", "_") if tf == "us" else t


def expand_ok(op):
    """Spellings in which '{{X}}' is an unambiguous read of (ns, title) -- see ASSUMPTIONS."""
    ns, sp = op["ns"], op.get("sp", {})
    pf = sp.get("pf", "canon")
    if ns in (0, 10):
        return True
    if ns == 4:
        # 'Wiktionary:X' is not a key the expander knows: it falls back to a full-title lookup without a
        # namespace.  Executed as a stimulus (op["stim"]), never compared.
        return pf in ("alias1", "canon")
    if pf != "canon":
        return False
    return not (sp.get("us") and " " in NS[ns][0])


def expand_text(op, sfx):
    t = spelled(op, sfx)
    return "{{:" + t + "}}" if op["ns"] == 0 else "{{" + t + "}}"


def spn(op):
    sp = op.get("sp", {})
    pf = sp.get("pf", "canon") if op.get("ns") else (sp.get("pf") if sp.get("pf") in ("main", "mainlc") else "omit")
    return (pf, bool(sp.get("lc")), bool(sp.get("us")), bool(sp.get("cm")),
            bool(op.get("nn")))


def sp_tag(op):
    sp = op.get("sp", {})
    tags = []
    if op.get("ns") and sp.get("pf", "canon") != "canon":
        tags.append("prefix-not-canonical" if op.get("nn") else "prefix-" + sp["pf"])
    if not op.get("ns") and sp.get("pf") in ("main", "mainlc"):
        tags.append("prefix-Main" if sp["pf"] == "main" else "prefix-main-lower-case")
    for k, name in (("lc", "lcfirst"), ("us", "underscore"), ("cm", "case-mangled")):
        if sp.get(k):
            tags.append(name)
    if op.get("nn"):
        tags.append("namespace_id-None")
    return ",".join(tags) or "canonical"


# ------------------------------------------------------------------------------------------
# the real store

class Store:
    """One database file under TMPDIR/c10db (not the temp dir itself: close_db_conn would delete it)."""
    seq = 0

    def __init__(self):
        from vf.core.wtp import fresh
        self.fresh = fresh
        d = os.path.join(os.environ.get("TMPDIR", "/tmp"), "c10db")
        os.makedirs(d, exist_ok=True)
        Store.seq += 1
        self.path = os.path.join(d, "p%d_%d.sqlite" % (os.getpid(), Store.seq))
        self.cm = None
        self.open()

    def open(self):
        self.cm = self.fresh(db_path=self.path)
        self.ctx = self.cm.__enter__()

    def close(self):
        if self.cm is not None:
            self.cm.__exit__(None, None, None)
            self.cm = None

    def reopen(self):
        self.close()
        self.open()

    def peek(self):
        return self.fresh(db_path=self.path)

    def destroy(self):
        self.close()
        for suf in ("", "-wal", "-shm"):
            try:
                os.unlink(self.path + suf)
            except OSError:
                pass


HITS = [0]


def memo_hits(ctx):
    ci = getattr(type(ctx).get_page, "cache_info", None)
    return ci().hits if ci is not None else 0


def memo_clear(ctx):
    cc = getattr(type(ctx).get_page, "cache_clear", None)
    if cc is not None:
        HITS[0] += memo_hits(ctx)      # cache_clear() resets the statistics
        cc()
        return True
    return False


# ------------------------------------------------------------------------------------------
# executing one history against store + model

def real_read(ctx, op, sfx):
    o, ns = op["o"], (None if op.get("nn") else op["ns"])
    if o == "expand":
        with cpu_guard(20):
            return versions_in(ctx.expand(expand_text(op, sfx)))
    t = spelled(op, sfx)
    if o == "get":
        return page_tuple(ctx.get_page(t, ns))
    if o == "getfull":
        return page_tuple(ctx.get_page(t, None))
    if o == "exists":
        return ctx.page_exists(t) if op.get("dflt") else ctx.page_exists(t, ns)
    if o == "body":
        return ctx.get_page_body(t, ns)
    if o == "resolve":
        return page_tuple(ctx.get_page_resolve_redirect(t, ns))
    raise ValueError(o)


def twins(store, ns, name):
    """Both the lower-case-first-letter and the upper-cased spelling of name are stored in ns."""
    a, b = (ns, name[:1].upper() + name[1:]), (ns, name[:1].lower() + name[1:])
    return a != b and a in store and b in store


def show(exp):
    if exp is None or exp is SKIP or isinstance(exp, (bool, list, str)):
        return repr(exp)
    return "v%d %r" % (exp.ver, (sorted(exp.titles) if exp.titles else "*", exp.ns, exp.body, exp.redirect, exp.model))


def execute(store, ops, sfx, nomemo=False, diagnose=False, obs=None, stats=None):
    """Run ops; -> (executed ops, mismatches).  A mismatch: dict(i, kind, fields, stale, got, exp, cured)."""
    m = Model()
    out_ops, mism = [], []
    queue = list(ops)
    written, read_keys, rawr = set(), {}, set()
    nontrivial = False
    while queue:
        op = queue.pop(0)
        i = len(out_ops)
        out_ops.append(op)
        o = op["o"]
        ctx = store.ctx
        if stats is not None and not op.get("dx"):
            stats["op." + o] = stats.get("op." + o, 0) + 1
        if o == "add":
            title = add_title(op, sfx)
            ver = m.ver + 1
            body = "(v%d)" % ver
            if op.get("nb"):
                body = "<noinclude>n%d</noinclude>" % ver + body
            ctx.add_page(title, op["ns"], body, model=op.get("model", "wikitext"))
            m.add(op["ns"], title, body, None, op.get("model", "wikitext"))
            written.add((op["ns"], op["b"]))
            if stats is not None:
                if op.get("pf") == "main":
                    stats["add_via_Main_prefix"] = stats.get("add_via_Main_prefix", 0) + 1
                if op["ns"] and op.get("pf", "canon") not in ("canon", "bare"):
                    stats["add_via_alias_or_other_case_prefix"] = stats.get("add_via_alias_or_other_case_prefix", 0) + 1
                if op["ns"] and op["b"].startswith("Main:"):
                    stats["add_title_starting_with_Main_outside_main"] = \
                        stats.get("add_title_starting_with_Main_outside_main", 0) + 1
                if twins(m.store, op["ns"], op["b"] + sfx):
                    stats["write_with_case_twin_stored"] = stats.get("write_with_case_twin_stored", 0) + 1
        elif o == "redir":
            title = add_title(op, sfx)
            tgt = target_title(op, sfx)
            ver = m.ver + 1
            body = "#REDIRECT [[%s]] (v%d)" % (tgt, ver) if op.get("rb") else None
            ctx.add_page(title, op["ns"], body, redirect_to=tgt, model=op.get("model", "wikitext"))
            m.add(op["ns"], title, body, tgt, op.get("model", "wikitext"))
            written.add((op["ns"], op["b"]))
            if stats is not None and "tns" in op:
                stats["redirect_to_other_namespace"] = stats.get("redirect_to_other_namespace", 0) + 1
        elif o == "commit":
            ctx.db_conn.commit()
            m.commit()
        elif o == "reopen":
            store.reopen()
            m.commit()
        elif o == "memo_clear":
            memo_clear(ctx)
        elif o == "peek":
            bad = None
            with store.peek() as c2:
                for key in sorted(set(m.store) | set(m.committed)):
                    cur, com = m.store.get(key), m.committed.get(key)
                    if (cur is None) != (com is None) or (cur is not None and not cur.same(com)):
                        if stats is not None:
                            stats["peek_dirty_skipped"] = stats.get("peek_dirty_skipped", 0) + 1
                        continue
                    ns, name = key
                    t = (NS[ns][0] + ":" if ns else "") + name
                    if not ns and name.startswith("Main:"):
                        t = "Main:" + t       # a main-namespace title whose own text starts with 'Main:'
                    got = page_tuple(c2.get_page(t, ns))
                    if obs is not None:
                        obs.check("peek-key")
                    ok, fields = agree("get", got, com)
                    if not ok and bad is None:
                        bad = {"i": i, "o": "peek", "fields": fields, "stale": False, "got": repr(got),
                               "exp": show(com), "key": [ns, name[:len(name) - len(sfx)] if sfx else name]}
            if bad:
                mism.append(bad)
        elif o in READS:
            if nomemo:
                memo_clear(ctx)
            t = spelled(op, sfx)
            ns = None if (o == "getfull" or op.get("nn")) else op["ns"]
            mns = None if op.get("nn") else op["ns"]     # namespace id as passed (getfull: the model maps it)
            exp = Model.expected(m.store, o, mns, t)
            if o == "expand" and ((op["ns"] == 4 and op.get("sp", {}).get("pf", "canon") == "canon") or ":" in op["b"]):
                exp = SKIP      # '{{Main:X}}' etc.: the expander's own reading of the colon, outside this property
            try:
                got = real_read(ctx, op, sfx)
            except CpuBudget as e:
                mism.append({"i": i, "o": o, "fields": ("no-return",), "stale": False, "got": "CPU budget", "exp": show(exp),
                             "raises": "no-return-within-cpu-budget"})
                continue
            except Exception as e:
                mism.append({"i": i, "o": o, "fields": ("raises",), "stale": False, "got": repr(e)[:200], "exp": show(exp),
                             "raises": exc_sig(e)})
                continue
            if obs is not None:
                obs.check("read")
                if exp is SKIP:
                    obs.count("skipped.undetermined")
            ok, fields = agree(o, got, exp)
            if o == "exists" and not op.get("dx"):
                # existence checks agree with lookups (same arguments)
                g2 = ctx.get_page(t, mns) is not None
                if obs is not None:
                    obs.check("exists-agrees-with-lookup")
                    if mns is None:
                        obs.check("exists-agrees-with-lookup.ns-None")
                if g2 != got:
                    mism.append({"i": i, "o": "exists", "fields": ("exists!=lookup",), "stale": False,
                                 "got": "page_exists=%r, get_page is not None=%r" % (got, g2), "exp": "equal", "rel": True})
            key = (op["ns"], op["b"])
            if stats is not None and not op.get("dx"):
                if twins(m.store, op["ns"], op["b"] + sfx):
                    stats["read_with_case_twin_stored"] = stats.get("read_with_case_twin_stored", 0) + 1
                    if op["ns"] and ord((op["b"][:1]).upper()) > ord((op["b"][:1]).lower()[:1]):
                        stats["read_with_case_twin_stored.upper_sorts_after_lower"] = \
                            stats.get("read_with_case_twin_stored.upper_sorts_after_lower", 0) + 1
                if op.get("sp", {}).get("pf") in ("main", "mainlc"):
                    stats["read_via_Main_prefix"] = stats.get("read_via_Main_prefix", 0) + 1
                if op.get("nn") and op["ns"] and (spn(op)[0] != "canon" or spn(op)[1]):
                    stats["read_ns_none_prefix_or_first_letter_not_canonical"] = \
                        stats.get("read_ns_none_prefix_or_first_letter_not_canonical", 0) + 1
                if op["ns"] and op["b"].startswith("Main:"):
                    stats["read_title_starting_with_Main_outside_main"] = \
                        stats.get("read_title_starting_with_Main_outside_main", 0) + 1
                if op.get("nn"):
                    stats["read_ns_none." + o] = stats.get("read_ns_none." + o, 0) + 1
                    if exp is not SKIP:
                        stats["read_ns_none_compared"] = stats.get("read_ns_none_compared", 0) + 1
                ck = (t, ns)
                if key in written:
                    nontrivial = True
                    stats["read_after_write"] = stats.get("read_after_write", 0) + 1
                    if ck in rawr:
                        stats["read_after_write_after_read"] = stats.get("read_after_write_after_read", 0) + 1
                read_keys.setdefault(key, set()).add(ck)
            if not ok:
                stale = False
                for snap in m.snapshots:
                    ok2, f2 = agree(o, got, Model.expected(snap, o, mns, t))
                    if ok2:
                        stale = True
                        break
                    if f2[0] not in ("absent", "phantom") and (fields[0] in ("absent", "phantom") or len(f2) < len(fields)):
                        fields = f2      # fields not explained by the closest earlier state either
                if not stale and o in ("resolve", "body", "expand"):
                    # two lookups: the redirect and its target may show two different earlier states
                    states = m.snapshots + [m.store]
                    stale = any(agree(o, got, Model.expected(s1, o, mns, t, s2))[0]
                                for s1 in states for s2 in states if s1 is not s2)
                mm = {"i": i, "o": o, "fields": fields, "stale": stale, "got": repr(got), "exp": show(exp)}
                mism.append(mm)
                if diagnose and not op.get("dx"):
                    d = dict(op)
                    d["dx"] = 1
                    queue[0:0] = [{"o": "memo_clear"}, d]
        else:
            raise ValueError(o)
        if o in ("add", "redir") and stats is not None:
            # reads of this key that happened before this write: a later identical read is the
            # read -> write -> read pattern
            for ck in read_keys.get((op["ns"], op["b"]), ()):
                rawr.add(ck)
    # pair every mismatching read with a following (memo_clear, same read) diagnosis
    bad_at = {mm["i"] for mm in mism if not mm.get("rel")}
    for mm in mism:
        i = mm["i"]
        if (not mm.get("rel") and i + 2 < len(out_ops) and out_ops[i + 1]["o"] == "memo_clear"
                and out_ops[i + 2].get("dx") and out_ops[i + 2]["o"] == mm["o"]):
            mm["cured"] = (i + 2) not in bad_at
    if stats is not None:
        stats["_nontrivial"] = nontrivial
    return out_ops, mism


# ------------------------------------------------------------------------------------------
# diagnosis: signature of one mismatch

class Lab:
    """Re-runs candidate histories in the shared store under fresh title suffixes."""

    def __init__(self, store):
        self.store = store
        self.n = 0
        self.evals = 0

    def sfx(self):
        self.n += 1
        return "z%d" % self.n

    def final(self, ops, nomemo, want=False):
        """Mismatch of the LAST op of ops (None if it agrees)."""
        self.evals += 1
        _o, mism = execute(self.store, ops, self.sfx(), nomemo=nomemo)
        last = len(ops) - 1
        for mm in mism:
            if mm["i"] == last and bool(mm.get("rel")) == want:
                return mm
        return None

    def cured_final(self, ops):
        """Plain run of ops + [memo_clear, same read]: the last read of ops fails and the repeat agrees."""
        self.evals += 1
        d = dict(ops[-1])
        d["dx"] = 1
        _o, mism = execute(self.store, ops + [{"o": "memo_clear"}, d], self.sfx())
        last = len(ops) - 1
        hit = [mm for mm in mism if mm["i"] == last and not mm.get("rel")]
        return hit[0] if hit and hit[0].get("cured") else None


def strip_dx(ops):
    return [o for o in ops if not o.get("dx") and o["o"] != "memo_clear"]


CONTROL = ("commit", "reopen", "peek")


def ddmin(ops, fails):
    """Greedy: drop ops (never the last) while fails(ops)."""
    changed = True
    while changed:
        changed = False
        for j in range(len(ops) - 2, -1, -1):
            cand = ops[:j] + ops[j + 1:]
            if fails(cand):
                ops = cand
                changed = True
    return ops


def shrink(ops, fails):
    """Cheap cuts first (all control ops; everything outside the key closure of the last op), then ddmin."""
    last = ops[-1]
    cand = [o for o in ops[:-1] if o["o"] not in CONTROL] + [last]
    if len(cand) < len(ops) and fails(cand):
        ops = cand
    if "b" in last:
        keys = {(last["ns"], last["b"])}
        grew = True
        while grew:
            grew = False
            for o in ops:
                if o["o"] == "redir" and (o["ns"], o["b"]) in keys and (o.get("tns", o["ns"]), o["tb"]) not in keys:
                    keys.add((o.get("tns", o["ns"]), o["tb"]))
                    grew = True
        if last["o"] == "getfull" or last["o"] == "expand" or last.get("nn"):
            keys |= {(n, b) for (n, b) in keys_of(ops) if b == last["b"]}
        cand = [o for o in ops[:-1] if "b" not in o or (o["ns"], o["b"]) in keys] + [last]
        if len(cand) < len(ops) and fails(cand):
            ops = cand
    return ddmin(ops, fails)


def keys_of(ops):
    ks = []
    for o in ops:
        if "b" in o and (o["ns"], o["b"]) not in ks:
            ks.append((o["ns"], o["b"]))
        if "tb" in o and (o.get("tns", o["ns"]), o["tb"]) not in ks:
            ks.append((o.get("tns", o["ns"]), o["tb"]))
    return ks


def to_ns(ops, ns):
    out = []
    for o in ops:
        o = dict(o)
        if "ns" in o:
            o["ns"] = ns
            o.pop("dflt", None)
            if "sp" in o:
                sp = dict(o["sp"])
                sp["pf"] = "omit" if ns == 0 else "canon"
                o["sp"] = sp
            if o["o"] in ("add", "redir"):
                o["pf"] = "canon"
                o.pop("nb", None)
        out.append(o)
    return out


def shape(ops):
    return ">".join(o["o"] for o in ops)


def diagnose(lab, executed, mm):
    """-> (sig, witness case).  executed: ops as run (with diagnosis ops); mm: one mismatch."""
    i = mm["i"]
    # earlier diagnosis ops (cache_clear + repeated read) changed the memo: they stay part of the history
    base = list(executed[:i + 1])
    if mm.get("raises"):
        nomemo = False
        fails = lambda ops: (lambda r: r is not None and r.get("raises") == mm["raises"])(lab.final(ops, False))
        if not fails(base):
            return "raises:%s/%s(unminimised)" % (mm["raises"], mm["o"]), {"ops": base, "nomemo": False, "at": i}
        w = shrink(base, fails)
        return "raises:%s/%s/hist=%s" % (mm["raises"], w[-1]["o"], shape(w)), {"ops": w, "nomemo": False, "at": len(w) - 1}
    if mm.get("rel"):
        fails = lambda ops: lab.final(ops, False, want=True) is not None
        w = shrink(base, fails) if fails(base) else base
        tag = ""
        if w[-1].get("nn"):
            # does it need namespace_id=None?  (same title, namespace id given)
            cand = w[:-1] + [{k: v for k, v in w[-1].items() if k != "nn"}]
            if not fails(cand):
                tag = "/namespace_id=None"
                for k, dv in (("cm", False), ("lc", False), ("us", False), ("pf", "canon" if w[-1]["ns"] else "omit")):
                    if w[-1].get("sp", {}).get(k, dv) != dv:
                        cand = w[:-1] + [dict(w[-1], sp=dict(w[-1]["sp"], **{k: dv}))]
                        if fails(cand):
                            w = shrink(cand, fails)
        return "existence-check-disagrees-with-lookup(same arguments)" + tag, \
            {"ops": w, "nomemo": False, "at": len(w) - 1, "rel": 1}
    if mm.get("cured"):
        kind = "stale-read" if mm["stale"] else "corrupt-read:" + "+".join(mm["fields"])
        sig = kind + "/cured-by-get_page.cache_clear"
        w = base
        same = lambda ops: (lambda r: r is not None and r["stale"] == mm["stale"] and
                            (r["stale"] or r["fields"] == mm["fields"]))(lab.cured_final(ops))
        if same(base):
            w = shrink(base, same)
        d = dict(w[-1])
        d["dx"] = 1
        return sig, {"ops": w + [{"o": "memo_clear"}, d], "nomemo": False, "at": len(w) - 1}
    # not explained by the lookup memo: minimise with the memo switched off
    fails = lambda ops: lab.final(ops, True) is not None
    if not fails(base):
        # only reproducible with the memo in play but not cured by clearing it
        kind = "+".join(mm["fields"])
        return "unstable(not cured by get_page.cache_clear, not reproduced with the memo off):%s/%s" % (kind, mm["o"]), \
            {"ops": executed[:i + 3], "nomemo": False, "at": i}
    b2 = strip_dx(base)
    if fails(b2):
        base = b2
    b2 = [dict(o, o="get", nn=1) if o["o"] == "getfull" else o for o in base]     # the same call, one notation
    if b2 != base and fails(b2):
        base = b2
    w = shrink(base, fails)
    # a title whose own text starts with 'Main:' -> the plain title, if that does not matter
    if any(o.get("b", "").startswith("Main:") or o.get("tb", "").startswith("Main:") for o in w):
        unmain = lambda x: x[5:] if x.startswith("Main:") else x
        cand = [dict(o, b=unmain(o["b"]), **({"tb": unmain(o["tb"])} if "tb" in o else {})) if "b" in o else o for o in w]
        if fails(cand):
            w = shrink(cand, fails)
    # retarget: the simplest read that still fails (plain get_page, canonical spelling, of a key in play)
    for _round in range(2):
        done = False
        for (ns, b) in keys_of(w):
            cand = w[:-1] + [{"o": "get", "ns": ns, "b": b, "sp": {"pf": "canon" if ns else "omit"}}]
            if cand[-1] != w[-1] and fails(cand):
                w = ddmin(cand, fails)
                done = True
                break
        if not done:
            break
    last = dict(w[-1])
    if last["o"] in READS:
        # op ladder (plain get, else get_page_body, else the op as it was) and spelling features one at a
        # time; each change is tried on every read of the same spelling first (an earlier identical read
        # may be what the failure depends on), then on the last read alone
        w = w[:-1] + [last]

        def variants(w, change, same_op):
            last = w[-1]
            sel = lambda o: ("sp" in o and o["ns"] == last["ns"] and o["b"] == last["b"] and spn(o) == spn(last)
                             and (not same_op or o["o"] == last["o"]))
            yield [change(o) if sel(o) else o for o in w]
            yield w[:-1] + [change(last)]

        def attempt(w, change, same_op=False):
            for cand in variants(w, change, same_op):
                if cand != w and all(o["o"] != "expand" or expand_ok(o) for o in cand) and fails(cand):
                    return cand
            return w

        def set_op(name):
            def ch(o):
                o = dict(o, o=name)
                o.pop("dflt", None)
                return o
            return ch

        # the same concrete title expressed relative to a written base name ('qux' = lcfirst of 'Qux')
        def rebase(w):
            last = w[-1]
            if "sp" in last and not last["sp"].get("cm"):
                conc = last["b"][:1].lower() + last["b"][1:] if last["sp"].get("lc") else last["b"]
                wr = [o for o in w[:-1] if o["o"] in ("add", "redir") and o["ns"] == last["ns"]]
                cands = [(o["b"], False) for o in wr if o["b"] == conc] + \
                        [(o["b"], True) for o in wr if o["b"] != conc and conc[:1].upper() + conc[1:] == o["b"]]
                if cands:       # the exact spelling of a written title first, else its lower-cased first letter
                    nb, nlc = cands[0]
                    w = attempt(w, lambda r, nb=nb, nlc=nlc: dict(r, b=nb, sp=dict(r["sp"], lc=nlc)))
            return w

        w = rebase(w)
        for simpler in ("get", "body"):
            if w[-1]["o"] in ("get", "getfull", simpler):
                break
            w2 = attempt(w, set_op(simpler), same_op=True)
            if w2 is not w:
                w = w2
                break
        for k, dv in (("cm", False), ("lc", False), ("us", False), ("pf", "canon" if w[-1]["ns"] else "omit")):
            if w[-1].get("sp", {}).get(k, dv) != dv:
                w = attempt(w, lambda o, k=k, dv=dv: dict(o, sp=dict(o["sp"], **{k: dv})))
        if w[-1].get("nn"):
            w = attempt(w, lambda o: {k: v for k, v in o.items() if k != "nn"})
        w = rebase(w)           # again: a dropped feature (case-mangling) may have stood in the way
        w = ddmin(w, fails)
    # stored-form features of the writes
    for j in range(len(w) - 1):
        if w[j]["o"] == "redir":
            cand = {"o": "add", "ns": w[j]["ns"], "b": w[j]["b"], "pf": w[j].get("pf", "canon")}
            c2 = w[:j] + [cand] + w[j + 1:]
            if fails(c2):
                w = c2
        if w[j]["o"] in ("add", "redir"):
            for k, dv in (("us", False), ("pf", "canon"), ("nb", False), ("model", "wikitext"), ("rb", False), ("tf", "canon")):
                if k in w[j] and w[j][k] != dv:
                    cand = dict(w[j])
                    cand[k] = dv
                    c2 = w[:j] + [cand] + w[j + 1:]
                    if fails(c2):
                        w = c2
    ws = sorted(w[:-1], key=lambda o: 0 if o["o"] == "add" else 1 if o["o"] == "redir" else 2)
    if ws != w[:-1] and all(o["o"] in ("add", "redir") for o in ws) and fails(ws + [w[-1]]):
        w = ws + [w[-1]]
    stored = set()
    for o in w[:-1]:
        if o["o"] in ("add", "redir"):
            if o.get("us"):
                stored.add("underscore")
            if o.get("pf", "canon") == "bare" and o["ns"]:
                stored.add("prefix-omitted")
            if o.get("pf", "canon") not in ("canon", "bare") and o["ns"]:
                stored.add("prefix-not-canonical")      # alias / other case: one class
            if o.get("pf") == "main" and not o["ns"]:
                stored.add("prefix-Main")
            if o.get("nb"):
                stored.add("noinclude-body")
            if o.get("model", "wikitext") != "wikitext":
                stored.add("model-" + o["model"])
            if o.get("rb"):
                stored.add("redirect-with-body")
            if o.get("tf", "canon") != "canon":
                stored.add("target-" + o["tf"])
            if "tns" in o:
                stored.add("target-in-other-namespace")
            if o["b"].startswith("Main:") and o["ns"]:
                stored.add("title-starts-with-Main:")
    # namespace class
    nss = {o["ns"] for o in w if "ns" in o} | {o["tns"] for o in w if "tns" in o}
    nstag = "mixed"
    if len(nss) == 1:
        ns = nss.pop()
        other = to_ns(w, 0 if ns else 10)
        ok_other = all(o["o"] != "expand" or expand_ok(o) for o in other)
        if ns:
            pf_free = all(o.get("sp", {}).get("pf", "canon") == "canon" for o in w if "sp" in o) and \
                all(o.get("pf", "canon") == "canon" for o in w if o["o"] in ("add", "redir"))
            nstag = "any" if (pf_free and ok_other and fails(other)) else "non-main"
        else:
            pf_free = all(o.get("sp", {}).get("pf") not in ("main", "mainlc") for o in w if "sp" in o) and \
                all(o.get("pf") != "main" for o in w if o["o"] in ("add", "redir"))
            nstag = "any" if (pf_free and ok_other and fails(other)) else "main"
    fin = lab.final(w, True) or mm
    fields = fin["fields"]
    kind = "lost" if fields == ("absent",) else "phantom" if fields == ("phantom",) else "wrong:" + "+".join(fields)
    lo = w[-1]
    rtag = lo["o"] + ("[%s]" % sp_tag(lo) if "sp" in lo else "")
    if lo["o"] == "peek":
        rtag = "second-context"
    sig = "%s/%s/hist=%s/stored[%s]/ns=%s" % (kind, rtag, shape(w), ",".join(sorted(stored)) or "-", nstag)
    nomemo = lab.final(w, False) is None     # plain replay is enough unless the memo hides it
    return sig, {"ops": w, "nomemo": nomemo, "at": len(w) - 1}


def describe(lab, case):
    """Message of the witness itself (one more run of it)."""
    ops = case["ops"]
    sfx = lab.sfx()
    try:
        executed, mism = execute(lab.store, ops, sfx, nomemo=case.get("nomemo", False))
    except Exception:
        return None
    mism = [mm for mm in mism if mm["i"] == case.get("at", len(ops) - 1)]
    mism = [mm for mm in mism if bool(mm.get("rel")) == bool(case.get("rel"))] or mism
    if not mism:
        return None
    mm = mism[0]
    hist = "; ".join(op_text(o, sfx) for o in executed)
    return fmt(executed, mm, sfx) + " :: history: " + hist


def op_text(o, sfx):
    if o["o"] == "add":
        return "add_page(%r, %s, '(vN)'%s)" % (add_title(o, sfx), o["ns"], " in <noinclude>" if o.get("nb") else "")
    if o["o"] == "redir":
        return "add_page(%r, %s, redirect_to=%r)" % (add_title(o, sfx), o["ns"], target_title(o, sfx))
    if o["o"] == "expand":
        return "expand(%r)" % expand_text(o, sfx)
    if "sp" in o:
        return "%s(%r, %s)" % ({"get": "get_page", "getfull": "get_page", "exists": "page_exists", "body": "get_page_body",
                                "resolve": "get_page_resolve_redirect"}[o["o"]], spelled(o, sfx),
                               None if (o["o"] == "getfull" or o.get("nn")) else o["ns"])
    return {"memo_clear": "get_page.cache_clear()", "commit": "db_conn.commit()", "reopen": "close_db_conn(); Wtp(db_path)",
            "peek": "read through a second Wtp(db_path)"}[o["o"]]


def fmt(executed, mm, sfx):
    op = executed[mm["i"]]
    return "%s returned %s, model (latest) %s%s%s" % (
        op_text(op, sfx), mm["got"], mm["exp"], "; value of an earlier state" if mm.get("stale") else "",
        "; agrees after get_page.cache_clear()" if mm.get("cured") else "")


# ------------------------------------------------------------------------------------------
# workloads

K, T, M = (10, "Foo bar"), (10, "Qux"), (0, "Foo bar")


def _r(o, key, **sp):
    d = {"o": o, "ns": key[0], "b": key[1], "sp": dict({"pf": "canon" if key[0] else "omit"}, **sp)}
    return d


ALPHABET = [
    {"o": "add", "ns": 10, "b": "Foo bar", "pf": "canon"},
    {"o": "add", "ns": 10, "b": "Foo bar", "pf": "bare"},
    {"o": "add", "ns": 10, "b": "Foo bar", "pf": "canon", "us": True},
    {"o": "redir", "ns": 10, "b": "Foo bar", "pf": "canon", "tb": "Qux", "tf": "canon"},
    {"o": "add", "ns": 10, "b": "Qux", "pf": "canon"},
    {"o": "add", "ns": 0, "b": "Foo bar", "pf": "canon"},
    {"o": "add", "ns": 10, "b": "foo bar", "pf": "canon"},       # the lower-case twin of K: both spellings stored
    {"o": "add", "ns": 0, "b": "Foo bar", "pf": "main"},         # main-namespace page added as 'Main:...'
    {"o": "add", "ns": 10, "b": "Foo bar", "pf": "alias0"},      # added under the aliased prefix 'T:...'
    {"o": "redir", "ns": 0, "b": "Foo bar", "pf": "canon", "tb": "Qux", "tf": "canon", "tns": 10},   # main -> Template:Qux
    _r("get", K),
    _r("get", K, pf="omit", lc=True, us=True),
    _r("get", K, pf="lower"),
    _r("exists", K, pf="alias0"),
    _r("body", K),
    _r("resolve", K),
    _r("expand", K, pf="omit"),
    _r("expand", K, pf="omit", lc=True, us=True),
    _r("get", T),
    _r("get", M),
    _r("body", M),
    _r("get", M, pf="main"),
    # namespace_id=None: the prefix of the full title alone selects the namespace
    dict(_r("exists", K), nn=1),
    dict(_r("exists", K, pf="lower", us=True), nn=1),
    dict(_r("get", K, us=True), nn=1),
    dict(_r("body", K), nn=1),
    dict(_r("resolve", K), nn=1),
    dict(_r("exists", M), nn=1),                            # no prefix, no namespace id: main namespace
    {"o": "commit"},
    {"o": "reopen"},
    {"o": "peek"},
]


def sweep(ops, rng=None):
    """Final reads over every key the history wrote (canonical get_page; random part: one more random read)."""
    out = []
    for (ns, b) in keys_of([o for o in ops if o["o"] in ("add", "redir")]):
        out.append({"o": "get", "ns": ns, "b": b, "sp": {"pf": "canon" if ns else "omit"}, "sw": 1})
        if rng is not None:
            out.append(rand_read(rng, ns, b, sw=1))
    return out


def rand_sp(rng, ns, b):
    sp = {"pf": rng.choice(pf_choices(ns)) if rng.random() < 0.6 else ("canon" if ns else "omit")}
    if rng.random() < 0.3:
        sp["lc"] = True
    if rng.random() < 0.3:
        sp["us"] = True
    if rng.random() < 0.06:
        sp["cm"] = True
    return sp


def rand_read(rng, ns, b, sw=0):
    r = rng.random()
    o = ("get" if r < 0.3 else "exists" if r < 0.45 else "body" if r < 0.6 else "resolve" if r < 0.72
         else "expand" if r < 0.92 else "getfull")
    d = {"o": o, "ns": ns, "b": b}
    if o == "getfull":
        d["sp"] = {"pf": "canon" if ns else "omit"}
    else:
        d["sp"] = rand_sp(rng, ns, b)
        if o == "expand":
            for _ in range(6):
                if expand_ok(d):
                    break
                d["sp"] = rand_sp(rng, ns, b)
            else:
                d["sp"] = {"pf": "alias1" if ns == 4 else ("canon" if ns else "omit")}
        if o in ("get", "exists", "body", "resolve") and rng.random() < 0.22:
            # namespace id None: full title, every spelling of the prefix (main namespace: bare title)
            d["nn"] = 1
            if ns and d["sp"].get("pf", "canon") == "omit":
                d["sp"]["pf"] = rng.choice([p for p in pf_choices(ns) if p != "omit"])
        elif o == "exists" and ns == 0 and rng.random() < 0.4:
            d["dflt"] = 1
    if sw:
        d["sw"] = 1
    return d


def gen_history(rng):
    prof = rng.random()
    if prof < 0.12:
        nss = [4]                       # local-name namespace: expander falls back to a full-title lookup
    else:
        nss = rng.sample(NSS, rng.choice([1, 1, 2, 2, 3]))
    bases = stems(rng, rng.choice([1, 1, 2, 2]))
    n = rng.randint(1, 40)
    ops, reads = [], []
    p_us = rng.choice([0.0, 0.0, 0.0, 0.05, 0.3])     # most histories never store a '_' title
    for _ in range(n):
        ns, b = rng.choice(nss), rng.choice(bases)
        r = rng.random()
        if r < 0.24:
            pr = rng.random()
            op = {"o": "add", "ns": ns, "b": b, "pf": ("canon" if pr < 0.6 else "bare" if pr < 0.82 else
                                                      rng.choice([p for p in pf_choices(ns) if p not in ("canon", "omit")]))
                  if ns else ("canon" if pr < 0.6 else "main")}
            if " " in b and rng.random() < p_us:
                op["us"] = True
            if ns not in (10,) and rng.random() < (0.6 if ns == 4 else 0.1):
                op["nb"] = True
            mr = rng.random()
            op["model"] = "Scribunto" if (ns == 828 and mr < 0.8) else "json" if mr > 0.93 else "wikitext"
        elif r < 0.33:
            op = {"o": "redir", "ns": ns, "b": b, "pf": ("canon" if rng.random() < 0.8 else "bare") if ns else
                  ("canon" if rng.random() < 0.7 else "main"),
                  "tb": rng.choice(bases), "tf": rng.choice(["canon", "canon", "canon", "bare", "us"]) if ns else
                  rng.choice(["canon", "canon", "us", "main"])}
            if rng.random() < 0.3:
                op["rb"] = True
            if rng.random() < 0.22:
                # the target is a page of another (non-main) namespace, named by its full canonical title
                others = [n for n in nss if n and n != ns] or [n for n in NSS if n and n != ns]
                op["tns"] = rng.choice(others)
                op["tf"] = rng.choice(["canon", "canon", "us"])
        elif r < 0.36:
            op = {"o": "commit"}
        elif r < 0.385:
            op = {"o": "reopen"}
        elif r < 0.41:
            if rng.random() < 0.5:
                ops.append({"o": "commit"})      # everything written so far becomes comparable through the second context
            op = {"o": "peek"}
        else:
            if reads and rng.random() < 0.5:
                op = dict(rng.choice(reads))      # the same spelling again: same memo key
            else:
                op = rand_read(rng, ns, b)
                reads.append(op)
        ops.append(op)
    return ops


# ------------------------------------------------------------------------------------------

class Monitor:
    def __init__(self, obs):
        from wikitextprocessor import Wtp
        self.obs = obs
        anchors.watch({"Wtp.add_page": Wtp.add_page, "Wtp.get_page": Wtp.get_page, "Wtp.page_exists": Wtp.page_exists,
                       "Wtp.get_page_body": Wtp.get_page_body, "Wtp.get_page_resolve_redirect": Wtp.get_page_resolve_redirect,
                       "Wtp.create_db": Wtp.create_db, "Wtp.close_db_conn": Wtp.close_db_conn,
                       "Wtp.namespace_prefixes": Wtp.namespace_prefixes, "Wtp._template_to_body": Wtp._template_to_body})
        self.store = Store()
        self.lab = Lab(self.store)
        self.nhist = 0
        self.sigcache = {}
        self.pre = {}
        self.hits0 = memo_hits(self.store.ctx)

    def close(self):
        self.obs.count("memo_hits", HITS[0] + memo_hits(self.store.ctx) - self.hits0)
        self.obs.count("lab_evaluations", self.lab.evals)
        self.store.destroy()

    def renew(self):
        self.store.destroy()
        self.store = Store()
        self.lab.store = self.store

    def run(self, ops, gen, key, rng=None):
        obs = self.obs
        self.nhist += 1
        if self.nhist % 25 == 0:
            self.renew()
        sfx = str(self.nhist)
        full = ops + sweep(ops, rng)
        stats = {}
        try:
            executed, mism = execute(self.store, full, sfx, diagnose=True, obs=obs, stats=stats)
        except Exception as e:       # a write / commit / reopen raised
            obs.case(key, nontrivial=False)
            obs.violation("raises-outside-read:" + exc_sig(e), repr(e)[:300], {"ops": full, "nomemo": False})
            self.renew()
            return
        nt = stats.pop("_nontrivial", False)
        for k, v in stats.items():
            obs.count(k, v)
        obs.count("hist." + gen)
        obs.maxi("history_length", len(ops))
        for o in full:
            if "sp" in o:
                obs.add("spellings", o["o"] + ":" + sp_tag(o) + (":main" if not o["ns"] else ""))
                obs.add("namespaces", o["ns"])
            elif o["o"] in ("add", "redir"):
                obs.add("stored_forms", "%s:%s%s%s%s" % (o["o"], o.get("pf"), ":us" if o.get("us") else "",
                                                      ":nb" if o.get("nb") else "", ":" + o.get("tf", "") if o["o"] == "redir" else ""))
        obs.case(key, nontrivial=nt, sample={"gen": gen, "ops": shape(ops)[:300]} if self.nhist % 97 == 1 else None)
        for mm in mism:
            if executed[mm["i"]].get("dx"):
                if not mm.get("rel"):
                    obs.count("mismatch.not-cured-by-memo-clear")
                continue
            obs.count("mismatch." + ("cured" if mm.get("cured") else "other"))
            if mm.get("cured") and mm["stale"]:
                # frequent class: minimise only the first few per shard
                sig = "stale-read/cured-by-get_page.cache_clear"
                n = self.sigcache.get(sig, 0)
                self.sigcache[sig] = n + 1
                if n >= 3:
                    obs.violation(sig, fmt(executed, mm, sfx), {"ops": executed[:mm["i"] + 3], "nomemo": False, "at": mm["i"]})
                    continue
            # a class (read form x stored forms in play x kind of disagreement) that was minimised to the same
            # signature twice is counted under it without minimising again
            pk = self.prekey(executed, mm)
            known = self.pre.get(pk)
            if known is not None and known[0] is not None and known[1] >= 2:
                obs.count("attributed-without-minimising")
                ops2 = strip_dx(executed[:mm["i"] + 1])
                obs.violation(known[0], fmt(executed, mm, sfx), {"ops": ops2, "nomemo": True, "at": len(ops2) - 1})
                continue
            obs.count("diagnosed")
            sig, case = diagnose(self.lab, executed, mm)
            if known is None:
                self.pre[pk] = [sig, 1]
            elif known[0] == sig:
                known[1] += 1
            else:
                known[0] = None          # not one class after all: always minimise
            obs.violation(sig, describe(self.lab, case) or fmt(executed, mm, sfx), case)

    @staticmethod
    def prekey(executed, mm):
        op = executed[mm["i"]]
        feats = set()
        if "b" in op:
            stem = op["b"].lower()
            for o in executed[:mm["i"]]:
                if o["o"] in ("add", "redir") and (o["b"].lower() == stem or o.get("tb", "").lower() == stem):
                    pf = o.get("pf", "canon")
                    feats.add((o["o"], pf if pf in ("canon", "bare", "main") else "other", bool(o.get("us")),
                               "tns" in o, o.get("tf", ""), o["ns"] == op["ns"], o["b"] == op["b"]))
        return (op["o"], spn(op) if "sp" in op else None, op.get("ns", -1) == 0, ":" in op.get("b", ""),
                tuple(mm["fields"]), bool(mm.get("rel")), bool(mm.get("cured")), bool(mm.get("raises")), frozenset(feats))


def run_shard(spec):
    obs = Obs()
    rng = random.Random(spec["seed"])
    mon = Monitor(obs)
    idx, nsh = spec["idx"], spec["nsh"]
    # part E: bounded exhaustive
    c = 0
    A = len(ALPHABET)
    for L in range(1, spec["exh_len"] + 1):
        for tup in itertools.product(range(A), repeat=L):
            c += 1
            if c % nsh != idx:
                continue
            letter = LETTERS[(c // nsh) % len(LETTERS)]      # the first-letter parameter rotates over the histories
            mon.run(instantiate([ALPHABET[j] for j in tup], letter), "exhaustive", "E" + ",".join(map(str, tup)))
            obs.add("first_letters", letter)
    # part R: random
    for _ in range(spec["n_random"]):
        ops = gen_history(rng)
        mon.run(ops, "random", "R" + json.dumps(ops, sort_keys=True), rng)
    mon.close()
    obs.anchors.update(anchors.snapshot())
    return obs


def replay(case):
    obs = Obs()
    store = Store()
    try:
        lab = Lab(store)
        try:
            executed, mism = execute(store, case["ops"], "r", nomemo=case.get("nomemo", False))
        except Exception as e:
            return {"violations": [("raises-outside-read:" + exc_sig(e), repr(e)[:300])]}
        out = []
        for mm in mism:
            if executed[mm["i"]].get("dx") or mm["i"] != case.get("at", mm["i"]):
                continue
            sig, _c = diagnose(lab, executed, mm)
            out.append((sig, fmt(executed, mm, "r")))
        return {"violations": out, "executed": [(o["o"], spelled(o, "r") if "sp" in o else
                                                 add_title(o, "r") if o["o"] in ("add", "redir") else "") for o in executed]}
    finally:
        store.destroy()
