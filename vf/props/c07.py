"""C07 -- every Lua invocation is stopped by its time limit; the context stays usable.

Monitor: online trace checker on a VIRTUAL clock.  The host-Lua globals os.time and debug.sethook that
_lua_set_timeout looks up at call time are replaced through ctx.lua.globals(): every poll of the timeout hook
advances virtual time by 2.5 microseconds per VM instruction of the period the hook was armed with (0.25 s per
100 000 instructions, 2.5 ms per 1 000), every arm/clear of the hook is logged, and
when the product clears the hook while an invocation is still active a counting monitor hook takes its place.
Each program runs in a forked child of an initialised context, so a violation inside a never-ending Lua loop
can be reported (pipe) and the child ended without losing the shard.

Rules: R1 once the product's own deadline condition holds, the outermost invocation returns within B_SECONDS = 0.75
further VIRTUAL seconds (= 300 000 VM instructions under an armed hook, whatever its period); R2 while an invocation is active Lua does not run 2*10^6 instructions with no limit armed; R3 the call
expands to the 'Lua timeout error' element (bodies that end by themselves with a Lua error, e.g. stack overflow,
may give the execution-error element); R4/usability: follow-up benign invocations on the same context give the
results of a fresh context, also after virtual time jumps 120 s ahead."""
from __future__ import annotations

import json
import os
import random
import select
import signal
import time

from vf.core.obs import Obs
from vf.core import anchors

LEVEL = "exploration"
RULE = ("programs = body x wrapper x limit: bodies {while-true, counting loop, repeat-until-false, loop calling string.rep/gsub/format, "
        "table.insert/concat, mw.text/mw.ustring, tail recursion, deep non-tail recursion, mutual recursion, loop inside a required "
        "module, loop inside a mw.loadData module, loop in a metamethod, loop in a gsub callback, loop while loading the module} x "
        "wrappers {none, pcall, xpcall, pcall in an outer loop, nested pcall, nested #invoke via frame:preprocess that loops, benign "
        "nested #invoke THEN loop, expandTemplate of a looping template, calls to _lua_set_timeout/_lua_clear_timeout_hook when "
        "reachable, error-swallowing loop, xpcall message-handler variants} x limit {0.5,1,2,None}, each followed by 1-5 benign "
        "invocations; PLUS complete scans of parameterised wrappers: loop inside N nested pcalls / N nested xpcalls / N nested pcalls "
        "in a nested #invoke for every N the interpreter's C-call limit allows (the position of the next hook expiry while the abort "
        "unwinds is a function of N), recursion through pcall / xpcall / metamethod / gsub callback down to the C-call limit and THEN "
        "an error-swallowing loop; module titles {plain, containing a phrase the host's error classification looks for}; CPU clock: "
        "loops over library calls of 1-10 ms and loops whose one library call outlasts the bound (backtracking patterns). "
        "non-trivial = distinct (body, wrapper, limit[, title kind]) whose execution polled the virtual clock at least once")
ASSUMPTIONS = ["virtual time: a poll of the product's hook advances the clock by 2.5 microseconds per VM instruction of the period the hook was armed with (0.25 s per 100 000 instructions); 'small bound' of R1 = 0.75 virtual seconds (300 000 VM instructions under the armed hook, independent of the hook period of the tree under test) after the poll at which the product's own deadline condition first holds",
               "CPU clock (second part): os.time = whole CPU seconds used by the forked process; bound = limit + 8 s of CPU; the library calls in those loops cost 1-10 ms each",
               "a loop whose single library call takes longer than limit + bound is a 'loop calling library functions' of the stated grammar and is generated (backtracking string patterns, minutes per call); calls that end by exhausting memory instead of time (string.rep('x',1e9)) are not generated; bodies that call such a function once and then RETURN are terminating programs, outside the quantifier",
               "module titles are a free dimension of every program (the statement speaks of every #invoke); titles are drawn from {pN, pN + a phrase that call_lua_sandbox searches the error text for}",
               "programs that spin at the interpreter's C-call limit are decided by the heartbeat CPU cap (15 s of CPU in Lua without one poll and without Python getting control; 30 s for all other programs)",
               "Lua stand-ins for the absent Scribunto ustring/libraryUtil files",
               "each program runs in a fork of an initialised context (same start state for every program)"]
WALL = {"quick": 900, "thorough": 5400}
# 'small bound' of R1 in VIRTUAL time: 0.75 s = 300 000 VM instructions of armed hook (3 polls of a hook armed with a
# period of 100 000 instructions, 300 polls of one armed with 1 000), whatever period the tree under test uses
B_SECONDS = 0.75
MONITOR_TICKS_MAX = 20
# a nested invocation costs well over 1000 VM instructions; the product's hook polls the clock every 100 000:
# thousands of nested invocations inside one outer invocation without a single poll mean the limit is not counting
NESTED_WITHOUT_POLL_MAX = 4000

BENIGN = r'''local e = {}
function e.sum(f) local s = 0 for i = 1, 400000 do s = s + i % 7 end return "sum=" .. s end
function e.echo(f) return "echo[" .. (f.args[1] or "") .. "]" end
function e.lib(f) return mw.text.trim("  x  ") .. string.upper("ab") .. #mw.text.split("a,b,c", ",") end
function e.pre(f) return f:preprocess("{{#invoke:b|echo|in}}") end
-- module-level state: every top-level invocation starts from a freshly loaded module, so this always answers 1
local calls = 0
counter_global = (counter_global or 0)
function e.count(f) calls = calls + 1 counter_global = counter_global + 1 return "count=" .. calls .. "/" .. counter_global end
function e.uselib(f) return require("Module:" .. f.args[1]).id() end
function e.libfail(f) FAIL_AT_LOAD = true return require("Module:" .. f.args[1]).id() end
return e'''
BENIGN_CALLS = ["{{#invoke:b|sum}}", "{{#invoke:b|echo|q}}", "{{#invoke:b|lib}}", "{{#invoke:b|pre}}", "{{tb}}", "{{#invoke:b|count}}"]
# invocations that fail in other ways than by timing out; run between the program and the follow-ups
DISTURBANCES = ["{{#invoke:nomodule|f}}", "{{#invoke:b|nofunction}}", "{{#invoke:notable|f}}", "{{#invoke:loaderr|f}}", "{{#invoke:b}}",
                "{{#invoke:b|pre}}{{#invoke:nomodule|f}}"]

BODIES = {
    "while-true": ("local i = 0 while true do i = i + 1 end", False),
    "counting": ("local i = 0 for j = 1, 1e15 do i = i + j end return i", False),
    "repeat": ("local i = 0 repeat i = i + 1 until false", False),
    "string-lib": ("local s = '' while true do s = string.format('%s', string.rep('a', 3)):gsub('a', 'b') end", False),
    "table-lib": ("while true do local t = {} for i = 1, 50 do table.insert(t, i) end local s = table.concat(t, ',') end", False),
    "mw-lib": ("while true do local s = mw.text.trim('  a  ') .. mw.ustring.upper('x') end", False),
    "tail-rec": ("local function g(n) return g(n + 1) end return g(1)", False),
    "deep-rec": ("local function g(n) return 1 + g(n + 1) end return g(1)", True),
    "mutual-rec": ("local a, b function a(n) return b(n + 1) end function b(n) return a(n + 1) end return a(1)", False),
    "in-required": ("local m = require('Module:spinlib') return m.spin()", False),
    "in-loaddata": ("local d = mw.loadData('Module:spindata') return d.x", True),
    "metamethod": ("local t = setmetatable({}, {__index = function(t, k) while true do end end}) return t.x", False),
    "gsub-callback": ("return (string.gsub('abc', '.', function(c) while true do end end))", False),
    # loops whose every iteration makes a nested invocation (each one passes through the timeout arming code)
    "loop-of-nested-invokes": ("while true do frame:preprocess('{{#invoke:b|echo|x}}') end", False),
    "loop-of-expandTemplate": ("while true do frame:expandTemplate{title = 'tb', args = {'y'}} end", False),
    "loop-of-callParserFunction": ("while true do frame:callParserFunction('#invoke', 'b', 'echo', 'z') frame:callParserFunction('lc', 'A') end", False),
    "loop-of-nested-invokes-pcall": ("while true do pcall(frame.preprocess, frame, '{{#invoke:b|echo|x}}{{#invoke:b|lib}}') end", False),
}
WRAPPERS = ["none", "pcall", "xpcall", "pcall-outer-loop", "nested-pcall", "swallow-loop", "preprocess-nested-loop",
            "nested-benign-then-loop", "expandTemplate-loop", "set-timeout-call", "clear-hook-call", "load-time-loop",
            # xpcall message handlers: Lua runs the handler of an error raised by the count hook with hooks disabled
            "xpcall-handler-constant", "xpcall-handler-table", "xpcall-handler-nothing", "xpcall-handler-loops",
            "xpcall-error-then-handler-loops", "xpcall-handler-errors", "xpcall-in-outer-loop"]
# ---- parameterised wrapper families ("family:parameter"; signatures carry the family only, see wtag)
# loop inside N nested protected calls: after the limit the error travels up through N sandbox pcall/xpcall levels, a
# fixed number of VM instructions each, so N decides WHERE the next expiry of the still armed hook lands (in
# particular: inside the epilogue of the invocation, which runs outside every protected call).  The whole range of N
# that the C-call limit of the interpreter (200) allows is scanned: one period of the hook is covered several times.
NEST_FAMILY = "loop-inside-N-nested-protected-calls"
NEST_KINDS = {"pcall": 192, "xpcall": 192, "pcall-in-nested-invoke": 150}
NEST_SCAN = [("%s:%s" % (NEST_FAMILY, k), n) for k in sorted(NEST_KINDS) for n in range(1, NEST_KINDS[k] + 1)]
# recursion through protected calls down to the interpreter's C-call limit, THEN the loop (in an error-swallowing
# loop): the deepest levels are where calling anything -- also a hook function -- fails with 'C stack overflow'
DEPTH_LIMIT_VIAS = ["pcall", "xpcall", "metamethod+pcall", "gsub-callback+pcall"]
DEPTH_LIMIT_FAMILY = "recursion-to-the-C-call-limit-then-swallow-loop"
# module titles: the host classifies a failed invocation by searching the error text (message + traceback + the
# title in 'Loading module failed in #invoke: <title>') for phrases of Wiktionary errors it wants to ignore
NAME_KINDS = {
    "plain": "",
    "ignorable-error-phrase(translations)": " Translations must be for attested and approved terms",
    "ignorable-error-phrase(getLinkPage)": " attempt to index a nil value (local 'lang') in function 'Module:links.getLinkPage'",
    "debug.error-phrase": " 'debug.error'",
}


# the loop runs WHILE A LIBRARY IS BEING LOADED by require(): what the module cache keeps of a load that never finished
# is state that outlives the invocation when the per-invocation reset keeps the library (the product keeps modules by
# NAME: its retained_modules list).  Library titles are drawn from names on that list and names that are not; every
# such program is followed by benign invocations that require / #invoke the same library.
LIBS = [("spinlib2", "plain-name"), ("my helpers", "plain-name"), ("utilities", "retained-name"), ("utils", "retained-name"),
        ("links", "retained-name"), ("languages", "retained-name"), ("parameters", "retained-name"),
        ("string utilities", "retained-name"), ("table", "retained-name"), ("string", "retained-name"),
        ("debug", "retained-name"), ("labels", "retained-name")]
LIB_CLASS = dict(LIBS)
LIB_FAMILY = "loop-while-loading-required-library"
LIB_KINDS = ["direct", "pcall", "xpcall", "nested-in-the-load-of-another-library", "in-nested-invoke"]
# the library's load runs what the requiring invocation hands it in globals (the library is loaded in that environment)
LIB_SRC = """local m = {}
if NEST_LIB then local n = NEST_LIB NEST_LIB = nil m.inner = require('Module:' .. n) end
if SPIN_AT_LOAD then local f = SPIN_AT_LOAD SPIN_AT_LOAD = nil f() end
if FAIL_AT_LOAD then FAIL_AT_LOAD = nil error('library load boom') end
function m.id() return 'lib-ok:%s' end
function m.idf(frame) return 'libf-ok:%s' end
return m"""


def lib_outer(lib):
    """The library in whose load `lib` is required (kind nested-in-the-load-of-another-library)."""
    return LIBS[(LIBS.index((lib, LIB_CLASS[lib])) + 5) % len(LIBS)][0]


def lib_followups(lib):
    return ["{{#invoke:b|uselib|%s}}" % lib, "{{#invoke:%s|idf}}" % lib, "{{#invoke:b|uselib|%s}}{{#invoke:b|uselib|%s}}" % (lib, lib)]


NEST_BODIES = ["while-true", "counting", "repeat", "string-lib", "table-lib", "mw-lib", "tail-rec", "mutual-rec", "metamethod",
               "gsub-callback", "in-required"]
DEPTH_LIMIT_BODIES = ["while-true", "string-lib", "counting", "mw-lib"]
TITLE_BODIES = ["while-true", "counting", "repeat", "string-lib", "table-lib", "tail-rec", "in-required"]
# the depth-limit programs are pure Lua loops: this much CPU without one poll and without Python getting control
DEPTH_LIMIT_CPU_CAP = 15


def wtag(w):
    """Wrapper family (what signatures carry): 'family:parameter' -> 'family'."""
    return w.split(":")[0]


def cpu_cap_of(w):
    return DEPTH_LIMIT_CPU_CAP if wtag(w) == DEPTH_LIMIT_FAMILY else CHILD_CPU_CAP


# CPU seconds one forked program may spend without the Python interpreter getting control once (RLIMIT_CPU pushed
# back by a Python-level heartbeat, load independent).  An armed count hook polls os.time (= the virtual clock, Python)
# every 100 000 VM instructions, i.e. many times per second: a program that burns this much CPU without one poll and
# without any callback into Python is running Lua where the count hook cannot fire.
CHILD_CPU_CAP = 30
# watchdog of one forked program (gives INCONCLUSIVE, never a verdict): CPU seconds of the child, and wall seconds behind it
CHILD_WATCHDOG_CPU = 120
CHILD_WATCHDOG_WALL = 480

# ---- second clock: CPU time.  The virtual clock counts polls, so it cannot see how much real time passes BETWEEN two
# polls.  Loops whose iterations are few VM instructions but expensive library calls (the library call is one
# instruction for the count hook) are run with os.time = start + the CPU seconds this process has used (load
# independent): the invocation has to come back within limit + CPU_BOUND seconds of CPU.
CPU_BOUND = 8            # 2 s of whole-second granularity of the product's own comparison + 6 s slack
CPU_KILL_EXTRA = 20      # RLIMIT_CPU: limit + this; a program still running then is reported as never aborted
CPU_BODIES = {
    # (library calls of 1-10 ms: a period of 100 000 instructions of such a loop is about a minute of CPU)
    "tight-loop(control)": "local i = 0 while true do i = i + 1 end",
    "rep-1MB": "while true do string.rep('x', 1e6) end",
    "concat-2e4": "local t = {} for i = 1, 2e4 do t[i] = i end while true do table.concat(t) end",
    "gsub-200kB": "local s = string.rep('ab', 1e5) while true do s:gsub('a', 'c') end",
    "upper-1MB": "local s = string.rep('x', 1e6) while true do s:upper() end",
    "sort-2e4": "local t = {} for i = 1, 2e4 do t[i] = (i * 7919) % 100003 end while true do table.sort(t) end",
    "find-20MB": "local s = string.rep('a', 2e7) while true do s:find('b') end",
    "format-5MB": "local s = string.rep('x', 5e6) while true do string.format('%s%s', s, s) end",
}
CPU_WRAPPERS = ["none", "pcall", "xpcall-handler-constant"]
# loops calling a library function whose ONE call costs more than limit + CPU_KILL_EXTRA seconds (backtracking
# patterns: 18 items 'a*' against 18 'a' and no 'b' is minutes per call).  The call is protected, so the loop goes on
# whatever the call answers (also when a tree refuses such a pattern with an error).
_BT = "local s, p = string.rep('a', 18), string.rep('a*', 18) .. 'b' "
CPU_SLOW_CALL_BODIES = {
    "find-backtracking": _BT + "while true do pcall(string.find, s, p) end",
    "match-backtracking": _BT + "while true do pcall(string.match, s, p) end",
    "gsub-backtracking": _BT + "while true do pcall(string.gsub, s .. 'c', p, '') end",
    "gmatch-backtracking": _BT + "while true do pcall(function() for m in s:gmatch(p) do end end) end",
}


def floors(tier):
    return {"oracle.R1-aborted-within-bound-after-deadline": 60, "oracle.R3-timeout-element": 60, "oracle.followup==fresh": 100,
            "sets.body-wrapper-pairs": 300, "counters.hook.arm": 100, "counters.polls": 500, "counters.invocation-depth>=2": 10,
            "counters.followups-after-time-jump": 20, "counters.disturbances": 50,
            "oracle.R1cpu-aborted-within-cpu-bound": 12, "oracle.R1cpu-slow-single-call": 2,
            "counters.nest-scan-programs": 500, "sets.depth-limit-vias": 4, "counters.module-title-phrase-programs": 80,
            "sets.nest-kinds": 3, "counters.library-load-programs": 55, "sets.library-title-classes": 2,
            "counters.library-load-error-disturbances": 10}


def shards(tier, seed):
    per = {"quick": 60, "thorough": 600}[tier]
    return [{"seed": seed * 1000 + i, "n": per, "idx": i, "tier": tier} for i in range(16)]


def program(body_name, wrapper, n, name_kind="plain"):
    """Returns (module pages, invoke wikitext, may_error)."""
    body, may_error = BODIES[body_name] if body_name in BODIES else (
        (CPU_BODIES[body_name] if body_name in CPU_BODIES else CPU_SLOW_CALL_BODIES[body_name]), False)
    name = "p%d" % n + NAME_KINDS[name_kind]
    pages = []
    fn = "local function spin(frame)\n" + body + "\nend\n"
    w = wrapper
    fam, _, par = w.partition(":")
    # the title inside Lua string literals of the generated module
    lname = name.replace("\\", "\\\\").replace("'", "\\'")
    if fam == NEST_FAMILY:
        kind, _, depth = par.rpartition(":")
        # (a level whose protected call comes back -- e.g. refused by the interpreter's C-call limit -- loops itself)
        if kind == "xpcall":
            nest = ("local function nest(frame, i) if i == 0 then return spin(frame) end "
                    "xpcall(function() return nest(frame, i - 1) end, function(m) return m end) return spin(frame) end\n")
        else:
            nest = "local function nest(frame, i) if i == 0 then return spin(frame) end pcall(nest, frame, i - 1) return spin(frame) end\n"
        if kind == "pcall-in-nested-invoke":
            f = nest + ("function e.g(frame) nest(frame, %d) return 'returned' end\n"
                        "function e.f(frame) return frame:preprocess('{{#invoke:%s|g}}') end" % (int(depth), lname))
        elif kind in ("pcall", "xpcall"):
            f = nest + "function e.f(frame) nest(frame, %d) return 'returned' end" % int(depth)
        else:
            raise ValueError(w)
    elif fam.startswith(LIB_FAMILY):
        kind, _, lib = par.partition(":")
        req = "require('Module:%s')" % lib.replace("'", "\\'")
        arm = "SPIN_AT_LOAD = function() return spin(frame) end "
        if kind == "direct":
            f = "function e.f(frame) %s return %s.id() end" % (arm, req)
        elif kind == "pcall":
            f = "function e.f(frame) %s local ok, m = pcall(require, 'Module:%s') return 'caught:' .. tostring(ok) end" % (arm, lib)
        elif kind == "xpcall":
            f = ("function e.f(frame) %s local ok, m = xpcall(function() return %s end, function(m) return m end) "
                 "return 'caught:' .. tostring(ok) end" % (arm, req))
        elif kind == "nested-in-the-load-of-another-library":
            outer = lib_outer(lib)
            f = "function e.f(frame) %s NEST_LIB = '%s' return require('Module:%s').id() end" % (arm, lib, outer)
        elif kind == "in-nested-invoke":
            f = ("function e.g(frame) %s return %s.id() end\n"
                 "function e.f(frame) return frame:preprocess('{{#invoke:%s|g}}') end" % (arm, req, lname))
        else:
            raise ValueError(w)
    elif fam == DEPTH_LIMIT_FAMILY:
        # every level tries one level deeper; a level that sees the interpreter's overflow error from below runs the
        # loop (errors of the loop swallowed, as in 'swallow-loop') instead of going deeper
        onerr = ("if not ok and tostring(err):find('stack overflow') then while true do pcall(spin, frame) end end "
                 "error(err, 0)")
        if par == "pcall":
            f = "local function rec(frame, d) local ok, err = pcall(rec, frame, d + 1) %s end\n" % onerr
            start = "pcall(rec, frame, 1)"
        elif par == "xpcall":
            f = ("local function rec(frame, d) local ok, err = xpcall(function() return rec(frame, d + 1) end, "
                 "function(m) return m end) %s end\n" % onerr)
            start = "pcall(rec, frame, 1)"
        elif par == "metamethod+pcall":
            f = ("local frame0\nlocal t\nt = setmetatable({}, {__index = function(_, d) local frame = frame0 "
                 "local ok, err = pcall(function() return t[d + 1] end) %s end})\n" % onerr)
            start = "frame0 = frame pcall(function() return t[1] end)"
        elif par == "gsub-callback+pcall":
            f = ("local function rec(frame, d) local ok, err = pcall(string.gsub, 'a', 'a', function() rec(frame, d + 1) end) "
                 "%s end\n" % onerr)
            start = "pcall(rec, frame, 1)"
        else:
            raise ValueError(w)
        f += "function e.f(frame) %s return 'returned' end" % start
    elif w == "none":
        f = "function e.f(frame) return spin(frame) end"
    elif w == "pcall":
        f = "function e.f(frame) local ok, r = pcall(spin, frame) return 'caught:' .. tostring(ok) end"
    elif w == "xpcall":
        f = "function e.f(frame) local ok, r = xpcall(function() return spin(frame) end, function(m) return m end) return 'caught:' .. tostring(ok) end"
    elif w == "xpcall-handler-constant":
        f = "function e.f(frame) local ok, r = xpcall(function() return spin(frame) end, function() return 'handled' end) return 'done:' .. tostring(ok) end"
    elif w == "xpcall-handler-table":
        f = "function e.f(frame) local ok, r = xpcall(function() return spin(frame) end, function() return {} end) return 'done:' .. tostring(ok) end"
    elif w == "xpcall-handler-nothing":
        f = "function e.f(frame) local ok, r = xpcall(function() return spin(frame) end, function() end) return 'done:' .. tostring(ok) end"
    elif w == "xpcall-handler-loops":
        f = "function e.f(frame) local ok, r = xpcall(function() return spin(frame) end, function() while true do end end) return 'done:' .. tostring(ok) end"
    elif w == "xpcall-error-then-handler-loops":
        f = "function e.f(frame) local ok, r = xpcall(function() error('x') end, function() return spin(frame) end) return 'done:' .. tostring(ok) end"
    elif w == "xpcall-handler-errors":
        f = "function e.f(frame) local ok, r = xpcall(function() return spin(frame) end, function(m) error('handler boom') end) return 'done:' .. tostring(ok) end"
    elif w == "xpcall-in-outer-loop":
        f = "function e.f(frame) while true do xpcall(function() return spin(frame) end, function() return 1 end) end end"
    elif w == "pcall-outer-loop":
        f = "function e.f(frame) while true do pcall(spin, frame) end end"
    elif w == "nested-pcall":
        f = "function e.f(frame) local ok = pcall(function() pcall(function() pcall(spin, frame) spin(frame) end) spin(frame) end) spin(frame) end"
        may_error = may_error
    elif w == "swallow-loop":
        f = "function e.f(frame) local n = 0 while true do local ok = pcall(function() while true do n = n + 1 end end) end end"
    elif w == "preprocess-nested-loop":
        f = "function e.g(frame) return spin(frame) end\nfunction e.f(frame) return frame:preprocess('{{#invoke:%s|g}}') end" % lname
    elif w == "nested-benign-then-loop":
        f = "function e.f(frame) local s = frame:preprocess('{{#invoke:b|echo|x}}') return spin(frame) end"
    elif w == "expandTemplate-loop":
        pages.append(("Template:spin" + name, 10, "{{#invoke:%s|g}}" % name))
        f = "function e.g(frame) return spin(frame) end\nfunction e.f(frame) return frame:expandTemplate{title='spin%s'} end" % lname
    elif w == "set-timeout-call":
        f = "function e.f(frame) if _lua_set_timeout then _lua_set_timeout(59) end return spin(frame) end"
    elif w == "clear-hook-call":
        f = "function e.f(frame) if _lua_clear_timeout_hook then _lua_clear_timeout_hook() end return spin(frame) end"
    elif w == "load-time-loop":
        src = "local e = {}\n" + fn + "spin()\nfunction e.f(frame) return 'x' end\nreturn e"
        pages.append(("Module:" + name, 828, src))
        return pages, "{{#invoke:%s|f}}" % name, may_error
    src = "local e = {}\n" + fn + f + "\nreturn e"
    pages.append(("Module:" + name, 828, src))
    return pages, "{{#invoke:%s|f}}" % name, may_error


class Parent:
    """Initialised context + virtual clock, never mutated: every program runs in a fork."""

    def __init__(self):
        from vf.core.wtp import fresh
        from vf.lua.vclock import VClock
        import wikitextprocessor.core as core
        self.cm = fresh(lua=True, pages=[
            ("Module:b", 828, BENIGN), ("Template:tb", 10, "T[{{{1|d}}}]"),
            ("Module:spinlib", 828, "local m = {}\nfunction m.spin() while true do end end\nreturn m"),
            ("Module:spindata", 828, "local i = 0 while true do i = i + 1 end return {x = 1}"),
            ("Module:notable", 828, "return nil"), ("Module:loaderr", 828, "error('load boom')")] + [
            ("Module:" + lib, 828, LIB_SRC % (lib, lib)) for lib, _ in LIBS])
        self.ctx = self.cm.__enter__()
        self.ctx.db_conn.commit()
        self.ctx.start_page("Pg")
        self.expected = {c: self.ctx.expand(c) for c in BENIGN_CALLS}   # also initialises the Lua runtime
        # the library follow-ups: from ANOTHER fresh context (this one must not have loaded any of the libraries)
        with fresh(lua=True, pages=[("Module:b", 828, BENIGN)] + [("Module:" + lib, 828, LIB_SRC % (lib, lib)) for lib, _ in LIBS]) as fc:
            fc.db_conn.commit()
            for lib, _ in LIBS:
                for c in lib_followups(lib):
                    fc.start_page("Pg")
                    self.expected[c] = fc.expand(c)
        self.clock = VClock(self.ctx, max_polls=10 ** 9)
        # debug.sethook only accepts Lua functions: wrap Python callables
        self.lua_fn = self.ctx.lua.eval("function(f) return function() f() end end")
        self.lua_same = self.ctx.lua.eval("function(a, b) return rawequal(a, b) end")
        self.depth = 0
        self.maxdepth = 0
        self.on_enter = None
        self.on_runaway = None
        self.nested_since_poll = 0
        import wikitextprocessor.luaexec as lx
        anchors.watch({"luaexec.call_lua_sandbox": lx.call_lua_sandbox, "luaexec.make_frame": (lx.call_lua_sandbox, "make_frame"),
                       "core.Wtp.expand": core.Wtp.expand, "core.Wtp.start_page": core.Wtp.start_page})
        orig = core.call_lua_sandbox
        me = self

        def wrapped(ctx, invoke_args, expander, parent, timeout, *more, **kw):
            me.depth += 1
            me.maxdepth = max(me.maxdepth, me.depth)
            if me.depth == 1 and me.on_enter is not None:
                me.on_enter()
            me.nested_since_poll += 1
            if me.nested_since_poll > NESTED_WITHOUT_POLL_MAX and me.on_runaway is not None:
                me.on_runaway()
            try:
                return orig(ctx, invoke_args, expander, parent, timeout, *more, **kw)
            finally:
                me.depth -= 1
        core.call_lua_sandbox = wrapped

    def close(self):
        self.cm.__exit__(None, None, None)


def child_run(par, prog, limit, followups, jump, wfd):
    """Runs in the forked child: executes the program under the online trace checker; writes one JSON report."""
    ctx, clock = par.ctx, par.clock
    rep = {"violations": [], "events": [], "polls": 0, "monitor_ticks": 0, "followups": []}
    state = {"start": None, "deadline_poll": None, "limit": 60 if limit is None else limit, "active": True, "arms": 0}

    def finish(code):
        rep["events"] = clock.events[-40:]
        rep["polls"] = clock.polls
        rep["maxdepth"] = par.maxdepth
        rep["anchors"] = anchors.snapshot()
        try:
            os.write(wfd, json.dumps(rep, default=str).encode())
        finally:
            os._exit(code)

    real_time = clock._time

    def on_poll(*a):
        v = real_time(*a)
        if a and a[0] is not None:
            return v
        par.nested_since_poll = 0
        if state["start"] is None or (clock.events and clock.events[-1][0] == "arm" and clock.events[-1][1] == clock.polls - 1):
            # first poll after an arm = the start_time taken by _lua_set_timeout
            if state["start"] is None or state["rearm_restarts"]:
                state["start"] = v
                state["deadline_poll"] = None
            return v
        if state["deadline_poll"] is None and v > state["start"] + state["limit"]:
            state["deadline_poll"] = clock.polls          # the product's own condition is true at this poll
            state["deadline_t"] = clock.t                 # ... at this virtual time
        if state["deadline_poll"] is not None and par.depth >= 1 and clock.t > state["deadline_t"] + B_SECONDS:
            rep["violations"].append(["R1:not-aborted-within-%s-virtual-seconds-after-deadline" % B_SECONDS,
                                      "virtual seconds after the deadline poll=%.4f polls=%d deadline_poll=%d depth=%d" % (
                                          clock.t - state["deadline_t"], clock.polls, state["deadline_poll"], par.depth)])
            finish(3)
        return v
    state["rearm_restarts"] = False
    clock.G.os.time = on_poll

    # monitor hook installed when the product clears its hook while an invocation is active
    real_sethook = clock.real_sethook

    def monitor_tick(*a):
        if par.depth >= 1:
            rep["monitor_ticks"] += 1
            if rep["monitor_ticks"] > MONITOR_TICKS_MAX:
                rep["violations"].append(["R2:ran-2e6-instructions-with-no-limit-armed-while-invocation-active",
                                          "events=%r" % (clock.events[-6:],)])
                finish(4)

    def sethook(*a):
        if len(a) == 0 or a[0] is None:
            clock.events.append(("clear", clock.polls, par.depth))
            clock.armed = False
            if par.depth >= 1:
                return real_sethook(par.lua_fn(monitor_tick), "", 100000)
            return real_sethook()
        clock.note_period(a)
        if clock.armed and state.get("hookfn") is not None and par.lua_same(a[0], state["hookfn"]):
            # the armed hook function re-arms ITSELF (other period / mask): the product's start_time is unchanged
            clock.events.append(("rearm-by-hook", clock.polls, par.depth))
            return real_sethook(*a)
        state["hookfn"] = a[0]
        clock.events.append(("arm", clock.polls, par.depth))
        clock.armed = True
        state["arms"] += 1
        if state["arms"] > 1 and par.depth >= 1 and state["start"] is not None:
            # a re-arm inside an active invocation restarts the product's start_time
            state["rearm_restarts"] = True
            rep.setdefault("rearms_while_active", 0)
            rep["rearms_while_active"] += 1
        return real_sethook(*a)
    clock.G.debug.sethook = sethook

    def on_enter():
        # Lua must never run unguarded while an invocation is active: until the product arms its own hook (which
        # replaces this one) the counting monitor hook is in place, so code that runs before / without any arm
        # (e.g. module loading) is observed too
        if not clock.armed:
            real_sethook(par.lua_fn(monitor_tick), "", 100000)
    par.on_enter = on_enter

    def on_runaway():
        rep["violations"].append(["R2:%d-nested-invocations-without-one-poll-of-the-time-limit" % NESTED_WITHOUT_POLL_MAX,
                                  "events=%r polls=%d" % (clock.events[-6:], clock.polls)])
        finish(5)
    par.on_runaway = on_runaway

    # watchdog of the child itself: inconclusive, never a violation.  Counted in CPU seconds of the child (the machine
    # may be shared: under load 120 s of wall clock are reached by programs that need 40 s of CPU); a long wall-clock
    # alarm stays behind it for a child that is blocked without using CPU
    signal.signal(signal.SIGALRM, lambda *_: (rep.__setitem__("watchdog", True), finish(9)))
    signal.signal(signal.SIGPROF, lambda *_: (rep.__setitem__("watchdog", True), finish(9)))
    signal.setitimer(signal.ITIMER_PROF, CHILD_WATCHDOG_CPU)
    signal.alarm(CHILD_WATCHDOG_WALL)
    import resource
    hard = resource.getrlimit(resource.RLIMIT_CPU)[1]
    # SIGXCPU ends the child (no Python handler).  The cap is pushed back by a heartbeat that only runs when the
    # Python interpreter gets control (signal handlers are deferred to bytecode boundaries): programs that are slow
    # because every iteration goes through Python (nested expansions) keep it alive, and so does an armed count hook
    # (it polls os.time = Python).  Only CHILD_CPU_CAP seconds of CPU spent inside Lua/C with no hook firing end it.
    def heartbeat(*_):
        cap = int(time.process_time()) + prog.get("cpu_cap", CHILD_CPU_CAP)
        if hard != resource.RLIM_INFINITY:
            cap = min(cap, hard)
        resource.setrlimit(resource.RLIMIT_CPU, (cap, hard))
    heartbeat()
    signal.signal(signal.SIGVTALRM, heartbeat)
    signal.setitimer(signal.ITIMER_VIRTUAL, 1.0, 1.0)

    for title, ns, body in prog["pages"]:
        ctx.add_page(title, ns, body, model="Scribunto" if ns == 828 else "wikitext")
    try:
        type(ctx).get_page.cache_clear()
    except AttributeError:
        pass
    ctx.start_page("Pg")
    before = (list(ctx.expand_stack), len(ctx.lua_env_stack), len(ctx.lua_frame_stack))
    try:
        out = ctx.expand(prog["call"], timeout=limit)
        rep["result"] = out
    except BaseException as e:      # noqa
        rep["result"] = None
        rep["exception"] = "%s: %s" % (type(e).__name__, str(e)[:300])
    state["active"] = False
    rep["deadline_poll"] = state["deadline_poll"]
    rep["polls_at_return"] = clock.polls
    rep["vsec_after_deadline"] = (clock.t - state["deadline_t"]) if state["deadline_poll"] is not None else None
    rep["hook_armed_after_return"] = clock.armed
    rep["stacks_restored"] = (list(ctx.expand_stack), len(ctx.lua_env_stack), len(ctx.lua_frame_stack)) == before
    rep["messages"] = [(m["msg"][:120] + " || " + m["trace"][-700:]) for m in ctx.errors][:3]
    # other kinds of failing invocations (they must leave the context as usable as a timeout does)
    rep["disturbances"] = []
    for dtext in prog.get("disturb", []):
        state["start"] = None
        state["deadline_poll"] = None
        state["limit"] = 60 if limit is None else limit
        state["arms"] = 0
        state["rearm_restarts"] = False
        b4 = (list(ctx.expand_stack), len(ctx.lua_env_stack), len(ctx.lua_frame_stack))
        try:
            dr = ctx.expand(dtext, timeout=limit)
        except BaseException as e:  # noqa
            dr = "EXC %s: %s" % (type(e).__name__, str(e)[:200])
        rep["disturbances"].append([dtext, dr[:200], (list(ctx.expand_stack), len(ctx.lua_env_stack), len(ctx.lua_frame_stack)) == b4])
    # usability: benign follow-ups on the same context (a stale armed hook must not fire in them)
    if jump:
        clock.advance(120)
    for c in followups:
        state["start"] = None
        state["deadline_poll"] = None
        state["limit"] = 60
        state["arms"] = 0
        state["rearm_restarts"] = False
        try:
            ctx.start_page("Pg")
            r = ctx.expand(c)
        except BaseException as e:  # noqa
            r = "EXC %s: %s" % (type(e).__name__, str(e)[:200])
        rep["followups"].append([c, r])
    finish(0)


def child_run_cpu(par, prog, limit, followups, jump, wfd):
    """Forked child, CPU clock: os.time = 1000 + whole CPU seconds used by this process since the program started."""
    import resource
    ctx, clock = par.ctx, par.clock
    t0 = time.process_time()
    polls = [0]

    def cpu_time(*a):
        if a and a[0] is not None:
            return clock.real_time(*a)
        polls[0] += 1
        return 1000 + int(time.process_time() - t0)
    clock.G.os.time = cpu_time
    clock.G.debug.sethook = clock.real_sethook
    hard = resource.getrlimit(resource.RLIMIT_CPU)[1]
    cap = int(t0) + int(limit) + CPU_KILL_EXTRA
    if hard != resource.RLIM_INFINITY:
        cap = min(cap, hard)
    resource.setrlimit(resource.RLIMIT_CPU, (cap, hard))
    for title, ns, body in prog["pages"]:
        ctx.add_page(title, ns, body, model="Scribunto" if ns == 828 else "wikitext")
    try:
        type(ctx).get_page.cache_clear()
    except AttributeError:
        pass
    ctx.start_page("Pg")
    rep = {"followups": []}
    t1 = time.process_time()
    try:
        rep["result"] = ctx.expand(prog["call"], timeout=limit)
    except BaseException as e:      # noqa
        rep["result"] = None
        rep["exception"] = "%s: %s" % (type(e).__name__, str(e)[:300])
    rep["cpu"] = time.process_time() - t1
    rep["polls"] = polls[0]
    for c in followups:
        try:
            ctx.start_page("Pg")
            r = ctx.expand(c)
        except BaseException as e:  # noqa
            r = "EXC %s: %s" % (type(e).__name__, str(e)[:200])
        rep["followups"].append([c, r])
    try:
        os.write(wfd, json.dumps(rep, default=str).encode())
    finally:
        os._exit(0)


def run_program(par, prog, limit, followups, jump, child=None):
    r, w = os.pipe()
    pid = os.fork()
    if pid == 0:
        os.close(r)
        try:
            (child or child_run)(par, prog, limit, followups, jump, w)
        finally:
            os._exit(7)
    os.close(w)
    buf = b""
    t0 = time.time()
    while True:
        rl, _, _ = select.select([r], [], [], 1.0)
        if rl:
            chunk = os.read(r, 65536)
            if not chunk:
                break
            buf += chunk
        if time.time() - t0 > CHILD_WATCHDOG_WALL + 60:
            try:
                os.kill(pid, 9)
            except Exception:
                pass
            break
    os.close(r)
    try:
        _, st = os.waitpid(pid, 0)
    except Exception:
        st = -1
    if not buf:
        if st != -1 and os.WIFSIGNALED(st) and os.WTERMSIG(st) == signal.SIGXCPU:
            return {"cpu_exhausted": True}
        return {"harness": "child ended without report (status %r)" % st}
    try:
        return json.loads(buf.decode())
    except Exception as e:
        return {"harness": "unparseable report: %s" % e}


def judge(par, prog, rep, limit, followups):
    """Offline part of the checker: (sig, msg) list from one child's report."""
    probs = []
    tag = "%s/%s" % (prog["body"], prog["wrapper"])
    wt = wtag(prog["wrapper"])
    nk = prog.get("name_kind", "plain")
    if nk != "plain":
        tag += " (module title contains %r)" % NAME_KINDS[nk].strip()
    for v in rep.get("violations", []):
        probs.append((v[0] + "/wrapper=" + wt, v[1] + " program=" + tag))
    if rep.get("watchdog"):
        return probs, "watchdog"
    if rep.get("violations"):
        return probs, "online"
    out = rep.get("result")
    if out is None:
        probs.append(("expand-raised-out-of-invoke/wrapper=" + wt, rep.get("exception", "")))
        return probs, "raised"
    if "Lua timeout error in Module:" in out:
        pass
    elif prog["may_error"] and "Lua execution error in Module:" in out:
        pass
    elif rep.get("deadline_poll") is None and prog["may_error"]:
        pass
    else:
        probs.append(("R3:no-timeout-element/wrapper=" + wt + ("" if nk == "plain" else "/module-title-contains=" + nk.split("(")[0]),
                      "result=%r program=%s" % (out[:200], tag)))
    if not rep.get("stacks_restored", True):
        probs.append(("stacks-not-restored-after-invoke/wrapper=" + wt, tag))
    for dtext, dr, restored in rep.get("disturbances", []):
        if dr.startswith("EXC "):
            probs.append(("failing-invocation-raised-out-of-expand", "%s -> %s" % (dtext, dr)))
        if not restored:
            probs.append(("stacks-not-restored-after-failing-invocation", "%s (expand_stack / lua_env_stack / lua_frame_stack)" % dtext))
    for c, r in rep.get("followups", []):
        if r != par.expected[c]:
            kind = "raises" if r.startswith("EXC ") else ("timeout-element" if "Lua timeout error" in r else "other")
            probs.append(("followup-differs-from-fresh-context(%s)/wrapper=%s" % (kind, wt),
                          "after %s: %s -> %r, fresh context gives %r" % (tag, c, r[:200], par.expected[c])))
    return probs, "ok"


def evaluate(obs, par, case):
    """One virtual-clock program (case = the replayable description): run, judge, record.  Returns 'exhausted' when the
    program ran into the CPU cap, 'harness' when its child gave no report, else 'ok'."""
    b, w, limit, fu, jump = case["body"], case["wrapper"], case["limit"], case["followups"], case["jump"]
    nk = case.get("name_kind", "plain")
    pages, call, may_error = program(b, w, case["n"], nk)
    call = call * case.get("repeat", 1)
    prog = {"body": b, "wrapper": w, "pages": pages, "call": call, "may_error": may_error,
            "disturb": case.get("disturb", []), "name_kind": nk, "cpu_cap": cpu_cap_of(w)}
    rep = run_program(par, prog, limit, fu, jump)
    wt = wtag(w)
    obs.count("disturbances", len(prog["disturb"]))
    if "harness" in rep:
        obs.inconclusive.append("program %s/%s: %s" % (b, w, rep["harness"]))
        return "harness"
    if rep.get("cpu_exhausted"):
        obs.case([b, w, limit], nontrivial=True)
        obs.add("body-wrapper-pairs", b + "/" + wt)
        obs.violation("R1:never-aborted-and-no-poll-reached-the-checker-before-the-cpu-cap/wrapper=" + wt,
                      "program %s/%s (limit %r) spent %d s of CPU inside Lua without returning, without one poll of "
                      "the time limit and without any callback into Python: Lua is running where the count hook "
                      "does not fire" % (b, w, limit, prog["cpu_cap"]), case)
        return "exhausted"
    probs, how = judge(par, prog, rep, limit, fu)
    if how == "watchdog":
        obs.inconclusive.append("program %s/%s: child watchdog fired (no logical witness)" % (b, w))
    obs.case([b, w, limit] + ([nk] if nk != "plain" else []), nontrivial=rep.get("polls", 0) > 0,
             sample={"program": pages[-1][2][:400], "call": call, "limit": limit, "events": rep.get("events", [])[:8],
                     "result": (rep.get("result") or "")[:120], "deadline_poll": rep.get("deadline_poll"), "polls_at_return": rep.get("polls_at_return")})
    obs.add("body-wrapper-pairs", b + "/" + wt)
    for k, v in rep.get("anchors", {}).items():
        obs.anchors[k] = obs.anchors.get(k, 0) + v
    obs.count("polls", rep.get("polls", 0))
    obs.count("hook.arm", sum(1 for e in rep.get("events", []) if e[0] == "arm"))
    obs.count("hook.clear", sum(1 for e in rep.get("events", []) if e[0] == "clear"))
    obs.count("monitor-hook-ticks", rep.get("monitor_ticks", 0))
    if rep.get("maxdepth", 0) >= 2:
        obs.count("invocation-depth>=2")
    if rep.get("hook_armed_after_return"):
        obs.count("observation.hook-still-armed-after-return")
    if rep.get("rearms_while_active"):
        obs.count("observation.rearm-while-invocation-active")
    if rep.get("deadline_poll") is not None and rep.get("vsec_after_deadline") is not None and how == "ok":
        obs.check("R1-aborted-within-bound-after-deadline")
        obs.maxi("max-virtual-seconds-after-deadline", round(rep["vsec_after_deadline"], 4))
        obs.maxi("max-polls-after-deadline", rep["polls_at_return"] - rep["deadline_poll"])
    if how == "ok":
        obs.check("R3-timeout-element")
        obs.check("followup==fresh", len(rep.get("followups", [])))
        if jump:
            obs.count("followups-after-time-jump", len(rep.get("followups", [])))
    for sig, msg in probs:
        obs.violation(sig, msg[:600], case)
    return "ok"


def run_shard(spec):
    import wikitextprocessor.luaexec as lx
    obs = Obs()
    rng = random.Random(spec["seed"])
    rng2 = random.Random(spec["seed"] * 7919 + 13)          # choices of the later-added dimensions (own stream)
    tier = spec.get("tier", "quick")
    par = Parent()
    bodies = sorted(BODIES)
    combos = [(b, w) for b in bodies for w in WRAPPERS]
    random.Random(spec["seed"] // 1000).shuffle(combos)     # same order in every shard: the slices partition the matrix
    # spread the (body, wrapper) matrix over the shards first, then sample
    mine = combos[spec["idx"]::16]
    exhausted = 0
    for i in range(spec["n"]):
        b, w = mine[i] if i < len(mine) else rng.choice(combos)
        limit = rng.choice([0.5, 1, 2, 2, None]) if i % 5 else 1
        if b.startswith("loop-of"):
            # every iteration goes through Python (nested expand): keep the virtual limit short, and the body needs a
            # frame, so it cannot run while the module is being loaded
            limit = rng.choice([0.5, 1, 1, 2])
            if w == "load-time-loop":
                w = "none"
        # several top-level invocations in one expand() call: each has the configured limit for itself
        repeat = rng.choice([1, 1, 1, 2, 3])
        disturb = [rng.choice(DISTURBANCES) for _ in range(rng.randint(0, 2))]
        fu = [rng.choice(BENIGN_CALLS) for _ in range(rng.randint(1, 5))] + ["{{#invoke:b|count}}"]
        if "{{#invoke:b|sum}}" not in fu:
            fu.append("{{#invoke:b|sum}}")       # > 100 000 instructions: a stale deadline can fire here
        jump = rng.random() < 0.5
        # the module title is a free dimension of every program
        nk = rng2.choice(sorted(NAME_KINDS)) if rng2.random() < 0.12 else "plain"
        case = {"body": b, "wrapper": w, "limit": limit, "followups": fu, "jump": jump, "n": spec["seed"] * 100000 + i,
                "disturb": disturb, "repeat": repeat}
        if nk != "plain":
            case["name_kind"] = nk
            obs.count("module-title-phrase-programs")
        if evaluate(obs, par, case) == "exhausted":
            exhausted += 1
            if exhausted >= 3:
                obs.notes.append("stopped early after 3 programs that ran into the CPU cap")
                break
    # ---- CPU-clock programs (split over the shards)
    cpu_progs = [(b, w, lim) for b in sorted(CPU_BODIES) for w in CPU_WRAPPERS for lim in (1, 2)]
    random.Random(spec["seed"] // 1000).shuffle(cpu_progs)
    per_shard = {"quick": 1, "thorough": 3}[tier]
    todo = list(enumerate(cpu_progs[spec["idx"]::16][:per_shard]))
    # loops whose ONE library call runs longer than limit + bound (quick: two of them in the whole run)
    slow = [(b, w, 1) for b in sorted(CPU_SLOW_CALL_BODIES) for w in CPU_WRAPPERS]
    random.Random(spec["seed"] // 1000 + 1).shuffle(slow)
    if tier == "quick":
        slow = slow[:2]
    todo += [(50 + k, x) for k, x in enumerate(slow) if (k * 5 + 3) % 16 == spec["idx"]]
    for k, (b, w, lim) in (todo if exhausted < 3 else []):
        n = spec["seed"] * 100000 + 90000 + k
        pages, call, _ = program(b, w, n)
        prog = {"body": b, "wrapper": w, "pages": pages, "call": call, "may_error": False}
        fu = ["{{#invoke:b|sum}}", "{{#invoke:b|count}}"]
        rep = run_program(par, prog, lim, fu, False, child=child_run_cpu)
        case = {"body": b, "wrapper": w, "limit": lim, "followups": fu, "n": n, "clock": "cpu"}
        probs = judge_cpu(par, prog, rep, lim)
        if probs is None:
            obs.inconclusive.append("cpu-clock program %s/%s: %s" % (b, w, rep.get("harness")))
            continue
        obs.case(["cpu", b, w, lim], nontrivial=True,
                 sample={"clock": "cpu", "program": pages[-1][2][:300], "limit": lim, "cpu_seconds": rep.get("cpu"),
                         "polls": rep.get("polls"), "result": (rep.get("result") or "")[:120]})
        obs.add("cpu-clock-programs", b + "/" + w)
        obs.check("R1cpu-slow-single-call" if b in CPU_SLOW_CALL_BODIES else "R1cpu-aborted-within-cpu-bound")
        if rep.get("cpu") is not None:
            obs.maxi("max-cpu-seconds-over-limit", round(rep["cpu"] - lim, 2))
        for sig, msg in probs:
            obs.violation(sig, msg[:600], case)
    # ---- scans of the parameterised wrapper families (split over the shards; own counters, never end the shard early)
    scan = []
    for fam, n in NEST_SCAN[spec["idx"]::16]:
        scan.append(("while-true", "%s:%d" % (fam, n), "plain", "nest-scan-programs"))
        obs.add("nest-kinds", fam)
        if tier == "thorough":
            scan.append((rng2.choice(NEST_BODIES), "%s:%d" % (fam, n), "plain", "nest-scan-programs"))
    depth = [(b, v) for b in DEPTH_LIMIT_BODIES for v in DEPTH_LIMIT_VIAS]
    if tier == "quick":
        depth = depth[:len(DEPTH_LIMIT_VIAS)]           # body while-true x every way of recursing
    for k, (b, v) in enumerate(depth):
        if (k * 5 + 1) % 16 == spec["idx"]:
            scan.append((b, "%s:%s" % (DEPTH_LIMIT_FAMILY, v), "plain", "depth-limit-programs"))
    for nk in sorted(NAME_KINDS):
        if nk != "plain":
            # the title appears in the failure message of a module that does not finish LOADING
            scan.append((rng2.choice(TITLE_BODIES), "load-time-loop", nk, "module-title-phrase-programs"))
            scan.append((rng2.choice(TITLE_BODIES), rng2.choice(["none", "pcall", "preprocess-nested-loop", "expandTemplate-loop"]), nk,
                         "module-title-phrase-programs"))
    # the loop runs while a required library is being loaded (library titles on / not on the product's retained list)
    libprogs = [(lib, kind) for lib, _ in LIBS for kind in LIB_KINDS]
    random.Random(spec["seed"] // 1000 + 2).shuffle(libprogs)
    for lib, kind in libprogs[spec["idx"]::16]:
        w = "%s(%s):%s:%s" % (LIB_FAMILY, LIB_CLASS[lib], kind, lib)
        scan.append(("while-true", w, "plain", "library-load-programs"))
        if tier == "thorough":
            for _ in range(3):
                scan.append((rng2.choice(NEST_BODIES), w, "plain", "library-load-programs"))
    for k, (b, w, nk, counter) in enumerate(scan):
        fu = [rng2.choice(BENIGN_CALLS) for _ in range(rng2.randint(0, 2))] + ["{{#invoke:b|sum}}", "{{#invoke:b|count}}"]
        disturb = []
        if counter == "library-load-programs":
            lib = w.rsplit(":", 1)[1]
            other = rng2.choice(LIBS)[0]
            obs.add("library-title-classes", LIB_CLASS[lib])
            # the same library afterwards, required and invoked; and a library whose load FAILED with a Lua error
            fu = lib_followups(lib) + fu
            if ":nested-in-the-load-of-another-library:" in w:
                fu = lib_followups(lib_outer(lib))[:2] + fu
            if rng2.random() < 0.5:
                disturb = ["{{#invoke:b|libfail|%s}}" % other]
                fu = fu + lib_followups(other)[:2]
                obs.count("library-load-error-disturbances")
        case = {"body": b, "wrapper": w, "limit": rng2.choice([0.5, 1]), "followups": fu, "jump": rng2.random() < 0.3,
                "n": spec["seed"] * 100000 + 50000 + k, "disturb": disturb, "repeat": 1}
        if nk != "plain":
            case["name_kind"] = nk
        obs.count(counter)
        obs.add("wrapper-families", wtag(w))
        if counter == "depth-limit-programs":
            obs.add("depth-limit-vias", w)
        evaluate(obs, par, case)
    par.close()
    return obs


def judge_cpu(par, prog, rep, limit):
    tag = "%s/%s" % (prog["body"], prog["wrapper"])
    kind = ("control" if "control" in prog["body"] else
            "loop-whose-one-library-call-outlasts-the-bound" if prog["body"] in CPU_SLOW_CALL_BODIES else
            "loop-over-expensive-library-calls")
    if rep.get("cpu_exhausted"):
        return [("R1cpu:not-aborted-within-limit+%ds-of-cpu/%s" % (CPU_KILL_EXTRA, kind),
                 "program %s with limit %r s was still running after %d s of CPU (os.time = CPU clock of the process)" % (
                     tag, limit, limit + CPU_KILL_EXTRA))]
    if "harness" in rep:
        return None
    probs = []
    out = rep.get("result")
    if out is None:
        probs.append(("expand-raised-out-of-invoke/cpu-clock", rep.get("exception", "")))
    elif "Lua timeout error in Module:" not in out:
        probs.append(("R3:no-timeout-element/cpu-clock/" + kind, "result=%r program=%s" % (out[:200], tag)))
    if rep.get("cpu", 0) > limit + CPU_BOUND:
        probs.append(("R1cpu:aborted-later-than-limit+%ds-of-cpu/%s" % (CPU_BOUND, kind),
                      "program %s with limit %r s came back after %.1f s of CPU" % (tag, limit, rep["cpu"])))
    for c, r in rep.get("followups", []):
        if r != par.expected[c]:
            probs.append(("followup-differs-from-fresh-context/cpu-clock", "after %s: %s -> %r, fresh context gives %r" % (tag, c, r[:200], par.expected[c])))
    return probs


def replay(case):
    par = Parent()
    pages, call, may_error = program(case["body"], case["wrapper"], case["n"], case.get("name_kind", "plain"))
    call = call * case.get("repeat", 1)
    prog = {"body": case["body"], "wrapper": case["wrapper"], "pages": pages, "call": call, "may_error": may_error,
            "disturb": case.get("disturb", []), "name_kind": case.get("name_kind", "plain"),
            "cpu_cap": cpu_cap_of(case["wrapper"])}
    if case.get("clock") == "cpu":
        rep = run_program(par, prog, case["limit"], case["followups"], False, child=child_run_cpu)
        probs = judge_cpu(par, prog, rep, case["limit"]) or []
        par.close()
        return {"violations": [p[0] for p in probs], "details": probs, "report": rep, "module": pages[-1][2]}
    rep = run_program(par, prog, case["limit"], case["followups"], case["jump"])
    if rep.get("cpu_exhausted"):
        par.close()
        return {"violations": ["R1:never-aborted-and-no-poll-reached-the-checker-before-the-cpu-cap/wrapper=" + wtag(case["wrapper"])],
                "report": rep, "module": pages[-1][2]}
    probs, how = judge(par, prog, rep, case["limit"], case["followups"]) if "harness" not in rep else ([], "harness")
    par.close()
    return {"violations": [p[0] for p in probs], "details": probs, "report": rep, "module": pages[-1][2]}
