"""C09 -- processing a page does not depend on what the context processed before.

Monitor: differential HISTORY monitor.  A baseline server process is forked while the shard process is still
pristine (no foreign-option context has ever been created in it); it answers each (page, operation) visit by
forking a grandchild that creates a brand-new Wtp(db_path) and performs exactly that visit.  The shard process
then creates contexts with foreign options (extension_tags, parser_function_aliases, other lang_code/project,
template_override_funcs), creates ONE long-lived default context on the same database and runs a history of
visits on it; every visit's (canonical parse tree | expansion | node_to_wikitext output, recorded messages) is
compared with its baseline.  A mismatch is minimised by re-running single predecessors in new contexts; the
mechanism signature is (what differs, kind of the minimal predecessor, kind of the victim page)."""
from __future__ import annotations

import json
import os
import random
import re
import struct

from vf.core.obs import Obs, cpu_guard, CpuBudget, exc_sig
from vf.core.canon import canon
from vf.gen import soup

LEVEL = "exploration"
RULE = ("histories of page visits on one long-lived context: corpus = token soups that end inside <pre>/open tables/unclosed "
        "templates, template-heavy pages, error/loop pages, pages invoking state-MUTATING Lua modules (global, string/table/math/mw/"
        "mw.text/mw.title fields, string metatable, required helper, loadData table, next/pairs, package.loaded, NAMESPACE_DATA) and "
        "READER modules that report what they see; visit = start_page + one of parse / parse(pre_expand) / parse(expand_all) / expand "
        "/ expand(pre_expand, selection) / parse+node_to_wikitext; histories = random orders with repetition (<=60) + all ordered "
        "(mutator, reader) pairs, same-page and next-page; foreign-option contexts created before the history context (one of them runs Lua "
        "on the same database). Further mutator classes: fields/functions set on the tables that require('math'|'table'|'mw'|'mw_text'|...) "
        "returns, on what the sandbox internals _cached_mod/_save_mod hand out, and a module that is the FIRST user of the lazily loaded "
        "mw.* libraries and then replaces functions in its OWN copies of mw.ustring/string/table/the global functions (reader reports the "
        "results of ~12 library calls). Module-level counters in a plain module, in modules whose NAME is on the hard-coded "
        "retained_modules list (Module:utils via #invoke, Module:utilities via require; tagged class). math.random / math.randomseed "
        "pages. NESTED invocations: the mutation followed by frame:preprocess('{{#invoke:reader|f}}') in the same function, and sibling "
        "mutator|reader invocations inside one frame:preprocess / two frame:expandTemplate calls. "
        "non-trivial = distinct (predecessor visit, visit) pair compared")
ASSUMPTIONS = ["baseline = the same visit in a brand-new default Wtp on the same database, in a process that never created a foreign-option context",
               "hex addresses in Lua traces are normalised; time-dependent functions are not in the corpus",
               "module names avoid the hard-coded retained_modules list, except the tagged class lua-counter-retained-name (Module:utils, Module:utilities), "
               "whose leaks get one signature of their own",
               "math.random: the fresh-process baseline is the reference (first draw of a never-seeded generator)",
               "Lua stand-ins for the absent Scribunto ustring/libraryUtil files"]
WALL = {"quick": 900, "thorough": 5400}
OPS = ["parse", "parse_pre", "parse_all", "expand", "expand_sel", "wikitext"]

MUTATORS = {
    "global": "leak_g = 'LEAK'",
    "string-field": "string.leak = 'LEAK'",
    "string-metatable": "local mt = getmetatable('') if type(mt) == 'table' and type(mt.__index) == 'table' then mt.__index.leak2 = 'LEAK' end",
    "string-metatable-gsub": "local mt = getmetatable('') if type(mt) == 'table' and type(mt.__index) == 'table' then mt.__index.rep = function() return 'HACK' end end",
    "table-field": "table.leak = 'LEAK'",
    "math-field": "math.leak = 'LEAK'",
    "mw-field": "mw.leak = 'LEAK'",
    "mw.text-field": "mw.text.leak = 'LEAK'",
    "mw.title-field": "mw.title.leak = 'LEAK'",
    "mw.ustring-field": "mw.ustring.leak = 'LEAK'",
    "required-helper": "require('Module:helper').state = 'LEAK'",
    "loaddata-table": "pcall(function() mw.loadData('Module:data').x = 'LEAK' end)",
    "next-redefined": "next = function() return nil end",
    "pairs-redefined": "pairs = function() return function() return nil end end",
    "os-field": "os.leak = 'LEAK'",
    "_G-field": "_G.leak3 = 'LEAK'",
    "namespace-data": "NAMESPACE_DATA.leak = 'LEAK'",
    "package-loaded": "if package and package.loaded then package.loaded.leak = 'LEAK' end",
    "frame-args": "frame.args.zz = 'LEAK' local p = frame:getParent() if p then p.args.zz = 'LEAK' end",
    "tostring-redefined": "tostring = function() return 'HACK' end",
    "mw.text.trim-replaced": "mw.text.trim = function() return 'HACK' end",
    "reset-env": "if _lua_reset_env then pcall(_lua_reset_env) end",
    # --- library tables reached through require() / the sandbox's module cache
    "require-library-field": "for _, n in ipairs(%(libs)s) do local ok, m = pcall(require, n) if ok and type(m) == 'table' then m.leakR = 'LEAK' end end",
    "require-library-function-replaced": "require('table').maxn = function() return 'HACK' end require('math').floor = function() return 'HACK' end",
    "cached-mod-field": "if _cached_mod then for _, n in ipairs(%(libs)s) do local m = _cached_mod(n) if type(m) == 'table' then m.leakC = 'LEAK' end end end",
    "save-mod-library-replaced": "if _save_mod then _save_mod('libraryUtil', {leakS = 'LEAK'}) end",
    # --- the module is the first user of the lazily loaded libraries, then changes only its OWN environment
    "firstuse-own-mw.ustring": "%(touch)s for k, v in pairs(mw.ustring) do if type(v) == 'function' then mw.ustring[k] = function() return 'HACK' end end end",
    "firstuse-own-string": "%(touch)s for k, v in pairs(string) do if type(v) == 'function' then string[k] = function() return 'HACK' end end end",
    "firstuse-own-table": "%(touch)s for k, v in pairs(table) do if type(v) == 'function' then table[k] = function() return 'HACK' end end end",
    "firstuse-own-globals": "%(touch)s for _, k in ipairs({'type', 'tostring', 'tonumber', 'select', 'ipairs', 'pairs', 'next', 'unpack', 'rawget', 'rawset', "
                            "'setmetatable', 'getmetatable', 'error', 'assert', 'mw_jsondecode_python'}) do _G[k] = function() return 'HACK' end end",
}
# mutators that reach state SHARED by all invocations (library tables handed out by require / by the module-cache accessors, the
# environment the lazily loaded libraries run in): what a sibling invocation sees of them has nothing to do with nesting, so their
# leaks keep the plain per-field signature on nested pages too, and the reader-inside-mutator form is left out for them
NOT_NESTING_SPECIFIC = ("require-library-", "cached-mod-", "save-mod-", "firstuse-own-")
LIBS = ["math", "table", "mw", "mw_text", "mw_title", "mw_hash", "mw_html", "mw_language", "mw_site", "libraryUtil", "ustring:ustring"]
_LIBS_LUA = "{" + ", ".join("'%s'" % n for n in LIBS) + "}"
_TOUCH = ("pcall(function() local _ = mw.text.trim(' a ') .. mw.ustring.upper('a') .. tostring(mw.html.create('b')) .. mw.title.new('X').text "
          ".. mw.language.getContentLanguage():lc('A') .. tostring(mw.site.siteName) .. tostring(mw.text.jsonDecode('[1]')[1]) end)")
MUTATORS = {k: (v % {"libs": _LIBS_LUA, "touch": _TOUCH} if "%(" in v else v) for k, v in MUTATORS.items()}
# library calls whose results the reader reports (name, Lua expression, clean result with non-alphanumerics removed);
# none of them depends on the page title or on the language edition
LIBCALLS = [("split", "mw.text.split('a,b', ',')[2]", "b"), ("nowiki", "mw.text.nowiki('[x]')", "lsqbxrsqb"),
            ("enc", "mw.text.encode('<a>')", "ltagt"), ("json", "mw.text.jsonEncode({1, 2})", "12"), ("jsond", "mw.text.jsonDecode('[1,2]')[2]", "2"),
            ("html", "tostring(mw.html.create('b'):attr('id', 'z'):wikitext('x'))", "bidzxb"), ("title", "mw.title.new('Foo bar').text", "Foobar"),
            ("lc", "mw.language.getContentLanguage():lc('AB')", "ab"), ("ucfirst", "mw.language.getContentLanguage():ucfirst('ab')", "Ab"),
            ("upper", "mw.ustring.upper('ab')", "AB"), ("usub", "mw.ustring.sub('abcd', 2, 3)", "bc")]
READER = r'''local e = {}
function e.f(frame)
  local r = {}
  local function add(n, v) r[#r + 1] = n .. "=" .. tostring(v) end
  add("glob", leak_g) add("stringf", string.leak) add("strmeta", ("x").leak2) add("rep", ("ab"):rep(2)) add("tablef", table.leak)
  add("mathf", math.leak) add("mwf", mw.leak) add("mwtext", mw.text.leak) add("mwtitle", mw.title.leak) add("mwustring", mw.ustring.leak)
  add("helper", require('Module:helper').state) add("loaddata", mw.loadData('Module:data').x) add("osf", os.leak) add("G", leak3)
  add("nsdata", NAMESPACE_DATA.leak) add("pkg", package and package.loaded and package.loaded.leak) add("zz", frame.args.zz)
  add("trim", mw.text.trim("  t  ")) add("arg", frame.args.n)
  local c = 0 for k, v in pairs({1, 2, 3}) do c = c + 1 end add("pairs", c)
  local c2 = 0 local k = next({5, 6}) if k ~= nil then c2 = 1 end add("next", c2)
  local rq, cm = '', ''
  for _, n in ipairs(LIBSLIST) do
    local ok, m = pcall(require, n)
    if ok and type(m) == 'table' then
      if m.leakR ~= nil then rq = rq .. (n:gsub('[^%w]', '')) end
      if m.leakC ~= nil then cm = cm .. (n:gsub('[^%w]', '')) end
    end
  end
  add("reqlib", rq == '' and 'none' or rq) add("cachedmod", cm == '' and 'none' or cm)
  do local ok, v = pcall(function() return require('libraryUtil').leakS end) if ok then add("savedmod", v) else add("savedmod", 'ERR') end end
  do local ok, v = pcall(function() return table.maxn({5, 6, 7}) end) add("maxn", ok and v or 'ERR') end
  do local ok, v = pcall(function() return math.floor(2.5) end) add("floor", ok and v or 'ERR') end
  local lc = ''
  for _, f in ipairs({LIBCALLFNS}) do
    local ok, v = pcall(f)
    lc = lc .. (ok and (tostring(v):gsub('[^%w]', '')) or 'ERR') .. 'x'
  end
  add("libcall", lc)
  local acc = 0 for i = 1, 300000 do acc = acc + i % 3 end
  local out = '' for i = 1, #r do out = out .. (i > 1 and ',' or '') .. r[i] end
  return out
end
return e'''
READER = READER.replace("LIBSLIST", _LIBS_LUA).replace("LIBCALLFNS", ", ".join("function() return %s end" % x for _, x, _ in LIBCALLS))
COUNTER = "local n = 0\nlocal e = {}\nfunction e.inc(frame) n = n + 1 return '%s=' .. n end\nreturn e"
RND = "local e = {}\nfunction e.pick(frame) return 'rnd' .. math.random(1, 1000000) end\nfunction e.seed(frame) math.randomseed(42) return 'seeded' end\nreturn e"
NEST = """local e = {}
function e.sib(frame) return frame:preprocess('{{#invoke:mut ' .. frame.args[1] .. '|f}}|{{#invoke:reader|f|n=sib}}') end
function e.sibt(frame) return frame:expandTemplate{title = 'wm', args = {frame.args[1]}} .. '|' .. frame:expandTemplate{title = 'wr', args = {'x'}} end
function e.two(frame) return frame:preprocess('{{#invoke:cnt|inc}}|{{#invoke:cnt|inc}}') end
return e"""
RND_PAGE = {"name": "Rnd", "kind": "lua-random", "text": "{{#invoke:rnd|pick}}"}


def floors(tier):
    return {"oracle.visit==fresh-context": 1500, "sets.mutator-reader-pairs": 40, "sets.page-op-pairs": 150,
            "counters.visit.kind.lua-reader": 100, "counters.visit.kind.soup-open": 50, "counters.visit.kind.raises": 30, "counters.visits-that-raised": 20, "counters.foreign-contexts-created": 4, "counters.virtual-time-jumps": 100, "counters.config-victim-visits.ext": 9, "counters.config-victim-visits.alias": 9,
            "sets.ops": 6,
            "counters.visit.kind.lua-nested-reader-inside-mutator": 20, "counters.visit.kind.lua-nested-siblings": 25,
            "counters.visit.kind.lua-nested-siblings-in-templates": 25, "counters.visit.kind.lua-counter-retained-name": 48,
            "counters.visit.kind.lua-random": 48, "counters.visit.kind.lua-counter": 5, "oracle.draw-after-seed==fresh-draw": 12,
            "counters.foreign-contexts-that-ran-lua": 12}


def shards(tier, seed):
    n = 16
    hist = {"quick": 4, "thorough": 190}[tier]
    return [{"seed": seed * 1000 + i, "idx": i, "histories": hist, "len": 40 if tier == "quick" else 60, "pairs": True} for i in range(n)]


# ------------------------------------------------------------------ corpus
def corpus(rng):
    """Deterministic for the shard: list of {name, kind, text}."""
    pages = []
    opens = ["<pre>", "{|\n| a", "{{ta|", "<div><span>", "'''b ''i", "[[link|", "<nowiki>", "<!-- c", "{{{1|", "== h =", "* a\n** b", "<ref>"]
    for i, o in enumerate(opens):
        s, _ = soup.soup(rng, 12)
        pages.append({"name": "Open%d" % i, "kind": "soup-open", "text": s + "\n" + o + " tail"})
    for i in range(10):
        s, _ = soup.soup(rng, 25)
        pages.append({"name": "Soup%d" % i, "kind": "soup", "text": s})
    tpl = ["{{ta|x}} {{tc|x=1|y}} {{tl|z}}", "{{tk}}{{tg}}\n{{td}}\n{{te}}\n{{tf}}", "{{ti}}bold{{ti}} {{tj}}d{{th}}",
           "{{#if:{{ta}}|{{tc|{{tb}}}}|n}} {{#switch:a|a={{ta|1}}|b=2}}", "{{loop}} {{l2}}", "{{#expr:1/0}} {{#time:}} {{missing|a}}",
           "{{ta|{{ta|{{ta|{{ta|x}}}}}}}} [[a|{{ta|l}}]] [http://x {{ta|e}}]", "{{PAGENAME}} {{FULLPAGENAME}} {{NAMESPACE}} {{#titleparts:a/b/c|1}}",
           "<foo>ext</foo> <bar a=1>b</bar>", "{{#tag:ref|x|name=n}} <ref name=n/> {{#tag:nowiki|{{ta}}}}",
           "{{fr-only}} {{#invoque:reader|f}}", "{{ovr|a|b}}",
           "{{T:ta|x}} {{template:ta|y}} {{Template:ta|z}} {{TEMPLATE:tc|x=1}} {{t:tl|q}}", "[[Category:X]] [[CAT:Y]] [[category:z]] [[File:a.png|thumb]] [[:Template:ta]]",
           "{{#invoke:Module:reader|f|n=m}} {{#invoke:module:reader|f}} {{Modèle:ta|fr}} {{Vorlage:ta|de}}"]
    for i, t in enumerate(tpl):
        pages.append({"name": "Tmpl%d" % i, "kind": "templates", "text": t})
    for k in MUTATORS:
        pages.append({"name": "Mut " + k, "kind": "lua-mutator:" + k, "text": "{{#invoke:mut %s|f|a}} after" % k})
        pages.append({"name": "MutT " + k, "kind": "lua-mutator-in-template:" + k, "text": "{{wm|%s}}" % k})
        pages.append({"name": "MutRead " + k, "kind": "lua-mutator+reader-same-page:" + k,
                      "text": "{{#invoke:mut %s|f}}|{{#invoke:reader|f|n= v }}" % k})
    pages.append({"name": "Reader", "kind": "lua-reader", "text": "{{#invoke:reader|f|n= v }}"})
    pages.append({"name": "ReaderT", "kind": "lua-reader", "text": "{{wr| q }} {{#invoke:reader|f|n=2}}"})
    # pages on which the call itself raises (RecursionError out of parse()/expand(): nesting far beyond the interpreter's
    # limit); the page handler of a dump run catches that and goes on with the next page on the same context
    for i, (o, c) in enumerate([("{{ta|", "}}"), ("[[a|", "]]"), ("{{{x|", "}}}"), ("{{#if:x|", "}}"), ("<div>", "</div>"),
                                ("{|\n|", "\n|}"), ("[[a|{{ta|", "}}]]")]):
        pages.append({"name": "Raise%d" % i, "kind": "raises", "text": "* l\n" + o * 700 + "z" + c * 700 + "\n* m"})
    pages.append({"name": "LuaErr", "kind": "lua-error", "text": "{{#invoke:reader|nofn}} {{#invoke:nomod|f}} {{#invoke:bad|f}}"})
    pages.append({"name": "Cnt plain", "kind": "lua-counter", "text": "{{#invoke:cnt|inc}} {{#invoke:cnt|inc}} {{wc}}"})
    pages.append(RND_PAGE)
    return pages


def dedicated(idx):
    """Histories outside the random corpus (their alarms would crowd the random histories), split over the 16 shards."""
    out = []
    rd = {"name": "Reader", "kind": "lua-reader", "text": "{{#invoke:reader|f|n= v }}"}
    # nested invocations: reader invoked (through frame:preprocess) by the function that made the change; sibling invocations
    # inside one frame:preprocess / inside two frame:expandTemplate calls
    nested = []
    for k in MUTATORS:
        if not k.startswith(NOT_NESTING_SPECIFIC):
            nested.append({"name": "Nest " + k, "kind": "lua-nested-reader-inside-mutator:" + k, "text": "{{#invoke:mut %s|g}}" % k})
        nested.append({"name": "NestSib " + k, "kind": "lua-nested-siblings:" + k, "text": "{{#invoke:nest|sib|%s}}" % k})
        nested.append({"name": "NestSibT " + k, "kind": "lua-nested-siblings-in-templates:" + k, "text": "{{#invoke:nest|sibt|%s}}" % k})
    nested.append({"name": "NestCnt", "kind": "lua-nested-siblings:counter", "text": "{{#invoke:nest|two}}"})
    for p in nested[idx::16]:
        out.append([(p, "expand"), (rd, "expand")])
    # module-level counters in modules whose NAME is on the retained list (through #invoke and through require)
    for name, text in (("Cnt retained", "{{#invoke:utils|inc}}"), ("Cnt retained-required", "{{#invoke:cntuser|inc}}")):
        p = {"name": name, "kind": "lua-counter-retained-name", "text": text}
        if idx % 2 == 0:
            out.append([(p, "expand"), (p, "expand"), (rd, "parse_all"), (p, "parse_all")])
        else:
            out.append([(rd, "expand"), (p, "parse_all"), (dict(p, name=name + " twice", text=text + " " + text), "expand")])
    # math.random / math.randomseed
    seed = {"name": "RndSeed", "kind": "lua-randomseed", "text": "{{#invoke:rnd|seed}}"}
    both = {"name": "RndSeedPick", "kind": "lua-random-seed+pick", "text": "{{#invoke:rnd|seed}}|{{#invoke:rnd|pick}}"}
    out.append([(RND_PAGE, "expand"), (RND_PAGE, "expand"), (seed, "expand"), (RND_PAGE, "parse_all"), (both, "expand"), (rd, "expand"), (RND_PAGE, "expand")])
    return out


def db_pages():
    out = [("Template:" + k, 10, v) for k, v in soup.LIBRARY.items()]
    out += [("Template:loop", 10, "{{loop}}"), ("Template:l2", 10, "{{l3}}"), ("Template:l3", 10, "{{l2|{{l3}}}}"),
            ("Template:wm", 10, "{{#invoke:mut {{{1}}}|f|p}}"), ("Template:wr", 10, "[{{#invoke:reader|f|n={{{1}}}}}]"),
            ("Module:reader", 828, READER), ("Module:helper", 828, "return {state = 'clean'}"),
            ("Module:data", 828, "return {x = 'clean'}"), ("Module:bad", 828, "local e = {} error('load boom') return e"),
            ("Module:cnt", 828, COUNTER % "plaincnt"), ("Module:utils", 828, COUNTER % "retainedcnt"),
            ("Module:utilities", 828, COUNTER % "retainedreq"), ("Module:rnd", 828, RND), ("Module:nest", 828, NEST),
            ("Module:cntuser", 828, "local e = {}\nfunction e.inc(frame) return require('Module:utilities').inc(frame) end\nreturn e"),
            ("Template:wc", 10, "[{{#invoke:cnt|inc}}]")]
    for k, b in MUTATORS.items():
        out.append(("Module:mut " + k, 828, "local e = {}\nfunction e.f(frame)\n" + b + "\nreturn 'done'\nend\n"
                    "function e.g(frame)\n" + b + "\nreturn frame:preprocess('{{#invoke:reader|f|n=nested}}')\nend\nreturn e"))
    return out


def make_db(path):
    from wikitextprocessor import Wtp
    from wikitextprocessor.interwiki import init_interwiki_map
    from vf.lua import shim
    ctx = Wtp(db_path=path, quiet_output=True, quiet=True)
    init_interwiki_map(ctx)
    shim.install(ctx)
    for t, ns, b in db_pages():
        ctx.add_page(t, ns, b, model="Scribunto" if ns == 828 else "wikitext")
    # the same helper templates under the localised Template namespace names of the other-language victims
    for loc in ("Modèle", "Vorlage"):
        ctx.db_conn.execute("INSERT OR REPLACE INTO pages (title, namespace_id, body, need_pre_expand, model) VALUES (?, 10, ?, 0, 'wikitext')",
                            (loc + ":ta", "L[{{{1|}}}]"))
        ctx.db_conn.execute("INSERT OR REPLACE INTO pages (title, namespace_id, body, need_pre_expand, model) VALUES (?, 10, ?, 0, 'wikitext')",
                            (loc + ":tb", "LB"))
    ctx.add_page("Template:td", 10, "{|", need_pre_expand=True)
    ctx.add_page("Template:tf", 10, "|}", need_pre_expand=True)
    ctx.db_conn.commit()
    ctx.close_db_conn()


HEX = re.compile(r"0x[0-9a-fA-F]+|(?:table|function|userdata): [0-9a-fA-Fx]+")


def norm(s):
    return HEX.sub("0xADDR", s) if isinstance(s, str) else s


def visit(ctx, page, op):
    """One page visit on ctx; returns a JSON-able observation."""
    ctx.start_page(page["name"])
    text = page["text"]
    res = {}
    try:
        with cpu_guard(30):
            if op == "parse":
                res["tree"] = repr(canon(ctx.parse(text)))
            elif op == "parse_pre":
                res["tree"] = repr(canon(ctx.parse(text, pre_expand=True)))
            elif op == "parse_all":
                res["tree"] = repr(canon(ctx.parse(text, expand_all=True)))
            elif op == "expand":
                res["expansion"] = ctx.expand(text)
            elif op == "expand_sel":
                res["expansion"] = ctx.expand(text, pre_expand=True, templates_to_expand={"ta", "tc"})
            elif op == "wikitext":
                res["wikitext"] = ctx.node_to_wikitext(ctx.parse(text))
    except CpuBudget:
        res["exception"] = "CPU-BUDGET"
    except RecursionError:
        res["exception"] = "RecursionError"     # the frame it surfaces in depends on the caller's own stack depth
    except Exception as e:
        res["exception"] = exc_sig(e)
    ret = ctx.to_return()
    res["messages"] = [[k, m["msg"], m["title"], m["section"], m["called_from"], list(m["path"])]
                       for k in ("errors", "warnings", "debugs", "notes", "wiki_notices") for m in ret[k]]
    return json.loads(norm(json.dumps(res)))


def diff_kind(a, b):
    for k in ("exception", "tree", "expansion", "wikitext"):
        if a.get(k) != b.get(k):
            return k
    if a.get("messages") != b.get("messages"):
        return "messages"
    return None


# ------------------------------------------------------------------ baseline server
def _send(fd, obj):
    b = json.dumps(obj).encode()
    os.write(fd, struct.pack("<I", len(b)) + b)


def _recv(fd):
    h = b""
    while len(h) < 4:
        c = os.read(fd, 4 - len(h))
        if not c:
            return None
        h += c
    n = struct.unpack("<I", h)[0]
    b = b""
    while len(b) < n:
        c = os.read(fd, n - len(b))
        if not c:
            return None
        b += c
    return json.loads(b.decode())


CONFIGS = {
    "default": {},
    # redefines an EXISTING tag (div as phrasing content, allowed inside span) and adds a new one
    "ext": {"extension_tags": {"div": {"parents": ["phrasing"], "content": ["phrasing"]},
                               "foo": {"parents": ["phrasing"], "content": ["phrasing"]}}},
    "alias": {"parser_function_aliases": {"#invoque": "#invoke"}},
    # redefines existing tags ONLY (same tag-name set as a default context, different nesting data)
    "redef": {"extension_tags": {"div": {"parents": ["phrasing"], "content": ["phrasing"]},
                                 "p": {"parents": ["phrasing"], "content": ["flow"]}}},
    # other language edition (localised namespace names and aliases) and other project
    "fr": {"lang_code": "fr"},
    "de-wikipedia": {"lang_code": "de", "project": "wikipedia"},
}
CONFIG_PAGES = [
    {"name": "CfgNest", "kind": "config-sensitive", "text": "<span>a<div>b</div>c</span> <foo>x<b>y</b></foo> <div><foo>z</foo></div>"},
    {"name": "CfgAlias", "kind": "config-sensitive", "text": "{{#invoque:reader|f|n=1}} {{#invoke:reader|f|n=2}}"},
    {"name": "CfgTable", "kind": "config-sensitive", "text": "{|\n| <div>c</div> || <foo>d</foo>\n|}\n<p><div>q</div></p>"},
    {"name": "CfgPrefix", "kind": "config-sensitive", "text": "{{Modèle:ta|x}} {{modèle:tb}} {{M:ta}} {{Vorlage:ta|y}} {{T:ta|z}} {{Template:ta}} "
                                                              "[[Catégorie:X]] [[Kategorie:Y]] {{#invoke:Module:reader|f}} {{NAMESPACE}} {{ns:10}}"},
    {"name": "Modèle:Cfg/Sub", "kind": "config-sensitive", "text": "{{PAGENAME}} {{FULLPAGENAME}} {{NAMESPACE}} {{TALKSPACE}} {{ta|1}}"},
]


def new_ctx(db, cfg):
    from wikitextprocessor import Wtp
    return Wtp(db_path=db, quiet_output=True, quiet=True, **CONFIGS[cfg])


def fresh_visits(db, visits, cfg="default"):
    """In a forked child: a brand-new default context performs the given visits in order; returns observations."""
    r, w = os.pipe()
    pid = os.fork()
    if pid == 0:
        os.close(r)
        try:
            ctx = new_ctx(db, cfg)
            out = [visit(ctx, p, op) for p, op in visits]
            _send(w, out)
        except BaseException as e:      # noqa
            try:
                _send(w, {"harness": repr(e)[:300]})
            except Exception:
                pass
        finally:
            os._exit(0)
    os.close(w)
    out = _recv(r)
    os.close(r)
    os.waitpid(pid, 0)
    return out


class BaselineServer:
    """Forked while the shard process is pristine; forks a grandchild per request."""

    def __init__(self, db):
        self.req_r, self.req_w = os.pipe()
        self.res_r, self.res_w = os.pipe()
        self.pid = os.fork()
        if self.pid == 0:
            os.close(self.req_w)
            os.close(self.res_r)
            try:
                while True:
                    q = _recv(self.req_r)
                    if q is None:
                        break
                    _send(self.res_w, fresh_visits(db, q["visits"], q["cfg"]))
            finally:
                os._exit(0)
        os.close(self.req_r)
        os.close(self.res_w)
        self.cache = {}

    def get(self, visits, cfg="default"):
        key = cfg + json.dumps([[p["name"], op] for p, op in visits])
        if key not in self.cache:
            _send(self.req_w, {"visits": visits, "cfg": cfg})
            self.cache[key] = _recv(self.res_r)
        return self.cache[key]

    def close(self):
        try:
            os.close(self.req_w)
            os.close(self.res_r)
            os.waitpid(self.pid, 0)
        except Exception:
            pass


def foreign_contexts(obs, db=None):
    """Contexts with other options, created (and closed) before the history context exists."""
    from wikitextprocessor import Wtp
    made = []
    if db is not None:
        try:
            c = new_ctx(db, "alias")
            c.start_page("F")
            with cpu_guard(30):
                c.expand("{{#invoque:rnd|seed}} {{#invoke:rnd|pick}} {{#invoke:rnd|pick}} {{#invoke:mut global|f}} {{#invoke:mut require-library-field|f}}")
            c.db_conn.close()
            obs.count("foreign-contexts-that-ran-lua")
        except Exception as e:
            obs.notes.append("foreign Lua context failed: %r" % (e,))
    for kw in ({"extension_tags": {"foo": {"parents": ["phrasing"], "content": ["phrasing"]}, "bar": {"parents": ["flow"], "content": ["flow"]}}},
               {"parser_function_aliases": {"#invoque": "#invoke"}}, {"lang_code": "fr", "project": "wikipedia"}, {"lang_code": "zh"},
               {"template_override_funcs": {"ovr": lambda args: "OVERRIDDEN"}}):
        try:
            c = Wtp(quiet_output=True, quiet=True, **kw)
            c.start_page("F")
            c.parse("<foo>x</foo> {{ovr|a}} {{#invoque:x|y}}")
            c.close_db_conn()
            obs.count("foreign-contexts-created")
        except Exception as e:
            obs.notes.append("foreign context %r failed: %r" % (list(kw), e))
    return made


def run_history(db, hist, base, obs, record=True, cfg="default"):
    """hist: list of (page, op). Runs on ONE new long-lived context of configuration cfg; returns list of
    (index, diffkind, got, want)."""
    ctx = new_ctx(db, cfg)
    bad = []
    try:
        prev = None
        clock = None
        for i, (p, op) in enumerate(hist):
            if clock is None and ctx.lua is not None:
                from vf.lua.vclock import VClock
                clock = VClock(ctx, max_polls=10 ** 9)
            if clock is not None:
                clock.advance(150)      # more than any Lua time limit passes between two visits
                if record:
                    obs.count("virtual-time-jumps")
            got = visit(ctx, p, op)
            want = base.get([(p, op)], cfg)[0]
            if record:
                obs.check("visit==fresh-context")
                obs.count("visit.kind." + p["kind"].split(":")[0])
                obs.add("page-op-pairs", p["name"] + "/" + op)
                obs.add("ops", op)
                if prev is not None:
                    obs.case([prev, p["name"], op], nontrivial=True,
                             sample={"previous-visit": list(prev), "page": p["name"], "kind": p["kind"], "op": op,
                                     "text": p["text"][:160], "result": repr(got)[:160]})
                    if prev[2].startswith("lua-mutator") and p["kind"] == "lua-reader":
                        obs.add("mutator-reader-pairs", prev[2] + ">" + p["name"])
            if record and "exception" in got:
                obs.count("visits-that-raised")
            d = diff_kind(got, want)
            leaks = reader_leaks(got)
            if record and "reader" in p["text"]:
                obs.check("reader-sees-clean-state")
            rs = None
            if p["kind"] == "lua-random-seed+pick":
                # the draw after another invocation's randomseed() on the same page == the draw of a fresh context alone
                if record:
                    obs.check("draw-after-seed==fresh-draw")
                m1 = re.search(r"rnd(\d+)", str(got.get("expansion", "")))
                m0 = re.search(r"rnd(\d+)", str(base.get([(RND_PAGE, "expand")], cfg)[0].get("expansion", "")))
                if m1 and m0 and m1.group(1) != m0.group(1):
                    rs = "random-state:draw-after-seed-on-same-page=%s,fresh-draw=%s" % (m1.group(1), m0.group(1))
            if leaks:
                # direct oracle (also catches leaks between two invocations on the SAME page, which the
                # fresh-context baseline shows as well)
                bad.append((i, "lua-state-leak:" + ",".join(sorted(leaks)), got, want))
            elif d:
                bad.append((i, d, got, want))
            elif rs:
                bad.append((i, rs, got, want))
            prev = [p["name"], op, p["kind"]]
    finally:
        try:
            ctx.db_conn.close()
        except Exception:
            pass
    return bad


def minimise(db, hist, i, d, base, obs):
    """Find one predecessor visit that alone reproduces the difference at visit i."""
    victim = hist[i]
    if d.startswith("lua-state-leak:") and reader_leaks(base.get([victim])[0]):
        return [victim], "same-visit-repeated"
    for j in range(i - 1, -1, -1):
        b = run_history(db, [hist[j], victim], base, obs, record=False)
        if any(k == 1 and dk == d for k, dk, _, _ in b):
            return [hist[j], victim], hist[j][0]["kind"] + "/" + hist[j][1]
    # same page visited twice?
    b = run_history(db, [victim, victim], base, obs, record=False)
    if any(k == 1 for k, _, _, _ in b):
        return [victim, victim], "same-visit-repeated"
    return hist[: i + 1], "unminimised-prefix"


CLEAN = {"glob": "nil", "stringf": "nil", "strmeta": "nil", "rep": "abab", "tablef": "nil", "mathf": "nil", "mwf": "nil", "mwtext": "nil",
         "mwtitle": "nil", "mwustring": "nil", "helper": "clean", "loaddata": "clean", "osf": "nil", "G": "nil", "nsdata": "nil", "pkg": "nil",
         "zz": "nil", "trim": "t", "pairs": "3", "next": "1",
         "reqlib": "none", "cachedmod": "none", "savedmod": "nil", "maxn": "3", "floor": "2", "libcall": "".join(c + "x" for _, _, c in LIBCALLS),
         "plaincnt": "1", "retainedcnt": "1", "retainedreq": "1"}
# (the first twenty alternatives are the original ones, in the original order)
FIELD = re.compile("(" + "|".join(re.escape(k) for k in CLEAN) + ")=([A-Za-z0-9]*)")
# what kind of state a reader field shows (used in the signatures of the nested-invocation classes)
FIELD_CLASS = dict({k: "library-table" for k in ("stringf", "strmeta", "rep", "tablef", "mathf", "mwf", "mwtext", "mwtitle", "mwustring", "trim",
                                                  "osf", "nsdata", "pkg", "reqlib", "cachedmod", "savedmod", "maxn", "floor", "libcall")},
                   **{k: "global-variable" for k in ("glob", "G", "zz", "pairs", "next")},
                   **{k: "module-level-state" for k in ("helper", "plaincnt", "retainedcnt", "retainedreq")}, loaddata="loaddata")
RETAINED_FIELDS = {"retainedcnt", "retainedreq"}
RANDOM_SIG = "math.random-state-shared-by-invocations-pages-and-contexts"


def leak_sig(field, where):
    if field in RETAINED_FIELDS:
        return "state-of-earlier-lua-invocation-visible/module-level-state/module-name-on-retained_modules-list"
    if where.startswith("nested-"):
        if field == "loaddata":     # the cached loadData table is writable: same mechanism inside and outside nesting
            return "state-of-earlier-lua-invocation-visible/loaddata/same-page"
        return "state-of-earlier-lua-invocation-visible/%s/%s" % (FIELD_CLASS[field], where)
    return "state-of-earlier-lua-invocation-visible/%s/%s" % (field, where)


def reader_leaks(obsv):
    """Fields of the reader module's report (anywhere in the observation) that are not the clean value:
    state written by an EARLIER invocation is visible to this one."""
    text = " ".join(str(obsv.get(k, "")) for k in ("expansion", "tree", "wikitext"))
    bad = set()
    for m in FIELD.finditer(text):
        if CLEAN.get(m.group(1)) != m.group(2):
            bad.add(m.group(1))
    return bad


def reader_fields(obsv):
    text = " ".join(str(obsv.get(k, "")) for k in ("expansion", "tree", "wikitext"))
    return sorted({m.group(0) for m in FIELD.finditer(text) if CLEAN.get(m.group(1)) != m.group(2)})[:12]


def select_bad(bad, cap=3, extra=4):
    """The first `cap` differing visits of a history (as before), plus up to `extra` later ones of a kind not yet taken
    (a class that alarms on every visit must not hide the others)."""
    out = list(bad[:cap])
    seen = {b[1] for b in out}
    for b in bad[cap:]:
        if extra > 0 and b[1] not in seen:
            out.append(b)
            seen.add(b[1])
            extra -= 1
    return out


def describe(hist):
    return [[p["name"], p["kind"], op, p["text"][:200]] for p, op in hist]


def run_shard(spec):
    obs = Obs()
    rng = random.Random(spec["seed"])
    tmp = os.path.join(os.environ.get("TMPDIR", "/tmp"), "c09db")
    os.makedirs(tmp, exist_ok=True)
    db = os.path.join(tmp, "pages.db")
    import wikitextprocessor.core as core   # (imported, but no context has ever been created in this process)
    import wikitextprocessor.luaexec as lx
    from vf.core import anchors
    anchors.watch({"core.Wtp.start_page": core.Wtp.start_page, "core.Wtp.parse": core.Wtp.parse, "core.Wtp.expand": core.Wtp.expand,
                   "luaexec.call_lua_sandbox": lx.call_lua_sandbox, "core.Wtp.__init__": core.Wtp.__init__})
    base = BaselineServer(db)        # forked BEFORE any context at all exists in this process
    make_db(db)
    foreign_contexts(obs, db)
    pages = corpus(random.Random(12345))
    by_kind = {}
    for p in pages:
        by_kind.setdefault(p["kind"].split(":")[0], []).append(p)
    hists = []
    for h in range(spec["histories"]):
        hists.append([(rng.choice(pages), rng.choice(OPS)) for _ in range(spec["len"])])
    if spec["pairs"]:
        # all ordered (mutator, reader) pairs, next-page; split over the shards
        muts = [p for p in pages if p["kind"].startswith("lua-mutator")]
        readers = [p for p in pages if p["kind"] == "lua-reader"]
        allpairs = [(m, r, op) for m in muts for r in readers for op in ("expand", "parse_all")]
        for m, r, op in allpairs[spec["idx"]::16]:
            hists.append([(m, "expand"), (r, op)])
    # a visit whose call raises, then ordinary pages on the same context (split over the shards)
    raisers = [p for p in pages if p["kind"] == "raises"]
    rp = [(r, op) for r in raisers for op in ("parse", "parse_pre", "parse_all", "expand")]
    for r, op in rp[spec["idx"]::16]:
        hists.append([(r, op)] + [(rng.choice(pages), rng.choice(OPS)) for _ in range(4)])
    # configuration victims: a context with OTHER options, created after default contexts (and after the foreign
    # contexts above) exist in this process, must behave like the same configuration in a pristine process
    for cfg in ("ext", "alias", "redef", "fr", "de-wikipedia"):
        ch = [(p, op) for p in CONFIG_PAGES for op in ("parse", "expand", "parse_all")]
        rng.shuffle(ch)
        b = run_history(db, ch, base, obs, cfg=cfg)
        obs.count("config-victim-visits." + cfg, len(ch))
        for i, d, got, want in b[:3]:
            obs.violation("visit-differs(%s)/config=%s-context-created-after-other-contexts" % (d.split(":")[0], cfg),
                          "visit %r differs from the same configuration in a pristine process: got %r want %r" % (
                              describe([ch[i]]), {k: str(v)[:200] for k, v in got.items() if got.get(k) != want.get(k)},
                              {k: str(v)[:200] for k, v in want.items() if got.get(k) != want.get(k)}),
                          {"history": [[p, op] for p, op in ch[: i + 1]], "cfg": cfg})
    hists += dedicated(spec["idx"])
    nmin = 0
    for hist in hists:
        bad = run_history(db, hist, base, obs)
        for i, d, got, want in select_bad(bad):
            vkind = hist[i][0]["kind"]
            is_random = vkind.startswith("lua-random") or d.startswith("random-state:")
            if is_random or (":firstuse-own-" in vkind and not d.startswith("lua-state-leak:")):
                mh, pred = hist[: i + 1], "not-minimised"
            elif nmin < 25:
                nmin += 1
                mh, pred = minimise(db, hist, i, d, base, obs)
            else:
                mh, pred = hist[: i + 1], "unminimised-prefix"
            if d.startswith("lua-state-leak:"):
                where = "same-page" if pred == "same-visit-repeated" or reader_leaks(want) else "later-page"
                if where == "same-page" and vkind.startswith("lua-nested-") and not vkind.split(":", 1)[-1].startswith(NOT_NESTING_SPECIFIC):
                    where = "nested-invocation(%s)" % vkind.split(":")[0][len("lua-nested-"):]
                sigs = sorted({leak_sig(f, where) for f in d[15:].split(",")})
            elif is_random:
                sigs = [RANDOM_SIG]
            elif ":firstuse-own-" in vkind:
                # what the page shows depends on whether ITS module or an earlier page was the first user of the libraries
                sigs = ["visit-differs(%s)/page-whose-module-changes-its-own-environment-after-using-mw-libraries" % d]
            else:
                sigs = ["visit-differs(%s)/after=%s" % (d, pred.split("/")[0])]
            sig = sigs[0]
            for extra in sigs[1:]:
                obs.violation(extra, "see " + sig, {"history": [[p, op] for p, op in mh]})
            obs.violation(sig, "visit %r differs from a fresh context: got %r want %r%s" % (
                describe([hist[i]]), {k: str(v)[:200] for k, v in got.items() if got.get(k) != want.get(k)},
                {k: str(v)[:200] for k, v in want.items() if got.get(k) != want.get(k)},
                (" leaking reader fields %s in %r" % (d[15:], reader_fields(got))) if d.startswith("lua-state-leak:") else
                (" (%s)" % d if d.startswith("random-state:") else "")),
                {"history": [[p, op] for p, op in mh]})
    base.close()
    obs.anchors.update(anchors.snapshot())
    return obs


def replay(case):
    obs = Obs()
    tmp = os.path.join(os.environ.get("TMPDIR", "/tmp"), "c09db_replay_%d" % os.getpid())
    os.makedirs(tmp, exist_ok=True)
    db = os.path.join(tmp, "pages.db")
    import wikitextprocessor  # noqa: F401
    base = BaselineServer(db)
    make_db(db)
    foreign_contexts(obs, db)
    hist = [(p, op) for p, op in case["history"]]
    bad = run_history(db, hist, base, obs, record=False, cfg=case.get("cfg", "default"))
    base.close()
    import shutil
    shutil.rmtree(tmp, ignore_errors=True)
    return {"violations": ["visit-differs(%s)@%d" % (d, i) for i, d, _, _ in bad],
            "details": [[i, d, {k: str(v)[:300] for k, v in g.items() if g.get(k) != w.get(k)},
                         {k: str(v)[:300] for k, v in w.items() if g.get(k) != w.get(k)}] for i, d, g, w in bad],
            "history": describe(hist)}
