"""C20 -- concurrent worker contexts on one database agree and do not disturb it.

One CASE = one multi-process run: a generated wiki site (vf/gen/c20_site.py) is stored in a
database file under TMPDIR/<sub-directory>, then k real processes (os.fork) are released through
a pipe barrier, each opens Wtp(db_path=...) and processes the pages in its own order
(get_page_body + expand, Lua invocations included) under sys.settrace delay injection: a
seed-derived 0..30 ms sleep between the LINES of create_db / backup_db_path / initialize_lua /
add_empty_sandbox_lua_module / add_page / page_exists, i.e. between check and act.

Oracles (all independent of the code under test):
  result.vs-model   every page result of every worker == by-construction model of the site
  result.vs-single  == what ONE process obtains on a byte copy of the same files (metamorphic)
  worker.no-failure no worker raises / hangs / dies (where the single process did not)
  table.row         pages table after the run (plain sqlite3, no worker alive) == pages a single
                    open would serve (backup content if a backup exists), only allowed addition:
                    the empty bootstrap page Module:_sandbox_phase1
  db.integrity      PRAGMA integrity_check
Offline checker: every worker writes a JSON-lines log (monotonic time stamps of every traced
line, page results, exceptions); the parent reads the logs after all workers are gone.
"""
from __future__ import annotations

import json
import os
import random
import select
import shutil
import signal
import sqlite3
import subprocess
import sys
import time
import traceback

from vf.core.obs import Obs, cpu_guard, CpuBudget, h64
from vf.core import anchors
from vf.gen import c20_site

LEVEL = "exploration"
RULE = ("case = one multi-process run: generated site (3-7 templates, redirects, 2-4 Lua modules, data modules, 4-9 pages) "
        "on one db file; variant grid enumerated exhaustively: {plain, backup file present, backup present + db file absent, "
        "WAL left by a SIGKILLed predecessor} x worker start {os.fork, separately started interpreters with distinct PYTHONHASHSEED} x bootstrap page {present as the package writes it, present with other content, absent} x k workers (quick 2,3,4,8; thorough 2,4,8,12,16); "
        "per case seeded random: start offsets (0-50 ms, some late 100-300 ms), per-worker delay scale (0/2/8/30 ms per traced line), "
        "page subsets and orders (Lua-first or shuffled), page source (about a third of the workers take their pages from the get_all_pages() generator and process them inside that loop, the others look them up by title); plus db-in-tempdir cases (the store lies directly in the workers' tempfile.gettempdir(); one worker starts after the first ones have closed), plus long-lived-worker cases (one or two workers pause between pages so that they "
        "stay alive ~7 s after their first Lua use while the others reach their first #invoke later; bootstrap page absent) and slow-reader cases (one worker holds a get_all_pages() cursor ~6 s "
        "while the others do their first Lua use). distinct = variant + cross-worker order of the critical events "
        "(exists?/unlink/rename/connect/schema, bootstrap exists?/add/commit); non-trivial = >=2 workers overlapped inside "
        "create_db or inside the bootstrap check-then-insert window")
ASSUMPTIONS = [
    "Lua: ustring/libraryUtil stand-in pages are stored with the site (Scribunto submodule absent)",
    "schedules are explored by perturbation (line-level sleeps <= 30 ms, far below SQLite's 5 s busy timeout), not exhaustively; evidence reports the distinct interleavings seen",
    "the WAL-from-killed-predecessor variant is not combined with a backup file (stale -wal after restore is C11's subject)",
    "'stored pages unchanged' when a backup file exists = the pages of the backup file (what a single open serves after its restore)",
    "iterate-mode workers: `for page in ctx.get_all_pages([0]): ctx.start_page(page.title); ctx.expand(page.body)` is the README's own way to walk a store; the connection's SELECT is unfinished during the page work",
    "db-in-tempdir cases: only the WORKERS see the store's directory as tempfile.gettempdir() (tempfile.tempdir set in the worker before Wtp()); the store is built and the single-process reference runs with the ordinary temp directory; every worker calls close_db_conn() when it is done, as before",
    "bootstrap page 'present with other content': a stored page titled Module:_sandbox_phase1 whose body/model differ from the empty Scribunto row; 'stored pages unchanged' applies to it like to any other row",
    "a failure that follows a worker's own failed Lua initialisation (later #invoke of the same worker) is reported under the signature of that first failure",
    "long-lived-worker cases: a worker that spends seconds between pages (real per-page work) is ordinary use; lifetimes overlapping by more than the 5 s busy timeout are what makes a write transaction left open by one worker observable in the others",
    "slow-reader cases: holding a get_all_pages() generator open for ~6 s is ordinary use (README iterates pages while workers run); it is what makes the WAL journal mode observable",
    "fork cases: workers are forked from the shard process (real processes, own Wtp, own sqlite connection); the shard process holds no sqlite connection at fork time",
    "spawn cases: every worker is its own `python -m vf.props.c20 --worker` interpreter with an explicit, distinct PYTHONHASHSEED (every 4th: 'random'); default deployments have random salts, and the PYTHONHASHSEED=0 that ./check exports must not leak into workers; with a backup present their delay scale is >= 8 ms per traced line so that start-ups overlap inside the restore",
    "interwiki network fetch stubbed (vf.core.shard.prepare)",
]
WALL = {"quick": 600, "thorough": 3000}

TARGETS = ("create_db", "backup_db_path", "initialize_lua", "add_empty_sandbox_lua_module", "add_page", "page_exists")
KEYLINES = {
    "create_db": [("restore_lock = ", "restore.contend"), ("restore_lock.", "restore.lock"), ("sqlite3.connect(\n", "restore.contend"),
                  (".exists()", "bk.exists?"), (".unlink(", "db.unlink"), (".rename(", "bk.rename"), (".replace(", "bk.rename"),
                  ("sqlite3.connect", "connect"), ("executescript", "schema+wal"), ("init_wikidata_cache(self)", "wikidata")],
    "add_empty_sandbox_lua_module": [("page_exists", "boot.exists?"), ("add_page", "boot.add"), ("commit", "boot.commit")],
}
CRITICAL = {l for v in KEYLINES.values() for _, l in v}
BOOT = ("Module:_sandbox_phase1", 828, None, 0, "", "Scribunto")
FOREIGN_BOOT = [("-- reserved: sandbox bootstrap placeholder\n", "wikitext"), ("return {}", "Scribunto"), ("", "wikitext")]
STALE = "worker-raises:OperationalError(locked)/without-waiting/own-get_all_pages-cursor-open(read snapshot stale after another worker's commit)"
TMPD = "db-deleted-by-close_db_conn(db_path directly in tempfile.gettempdir())"
RACE = "restore-race(backup exists()->unlink->rename entered by >=2 workers)"
LONG = 7.0  # seconds a long-lived worker stays alive after its first page (> 5 s busy timeout + start offsets of the others)
HOLD = 6.3  # seconds the slow reader keeps its cursor open (> 5 s default busy timeout)


def floors(tier):
    q = tier == "quick"
    return {"oracle.result.vs-single": 300 if q else 8000, "oracle.result.vs-model": 300 if q else 8000,
            "oracle.table.row": 300 if q else 8000, "oracle.worker.no-failure": 100 if q else 3000,
            "oracle.db.integrity": 20 if q else 500,
            "counters.overlap.create_db.runs": 10 if q else 300, "counters.overlap.bootstrap-window.runs": 2 if q else 50,
            "counters.variant.backup": 4, "counters.variant.wal": 4, "counters.variant.bootstrap-absent": 4,
            "counters.variant.bootstrap-present": 4, "counters.variant.slow-reader": 1, "counters.variant.long-lived-worker": 1,
            "counters.variant.spawn": 8, "counters.spawn+backup.runs": 4, "counters.spawn+backup.restore-contended-by>=2.runs": 3,
            "sets.hash-salts": 8, "counters.variant.db-in-gettempdir": 2, "counters.variant.bootstrap-present-with-other-content": 4,
            "counters.iterate-mode.workers": 20, "counters.iterate-mode.first-lua-after-foreign-commit-with-own-cursor-open": 3,
            "counters.long-lived.lua-starts-while-bootstrapper-alive>5s": 1, "counters.variant.nodb": 1,
            "counters.bootstrap-row-added.runs": 2, "counters.restore-window-entered-by>=2.runs": 2 if q else 30,
            "sets.interleavings": 25 if q else 700, "sets.k": 4,
            "anchors.core.create_db": 100, "anchors.luaexec.add_empty_sandbox_lua_module": 50,
            "anchors.luaexec.initialize_lua": 50, "anchors.core.expand": 300,
            "nontrivial": 15 if q else 400}


def grid(tier):
    ks = [2, 3, 4, 8] if tier == "quick" else [2, 4, 8, 12, 16]
    out = []
    # (variant, how the workers are started): forked children share the parent's str-hash salt,
    # separately started interpreters ("spawn") each get their own PYTHONHASHSEED
    # third element: what "bootstrap page present" means in this column -- the row the package itself
    # writes (True) or a stored page of that title with OTHER content ("foreign")
    for var, spawn, present in (("plain", 0, True), ("backup", 0, "foreign"), ("wal", 0, True), ("backup", 1, True),
                                ("plain", 1, "foreign"), ("nodb", None, True), ("wal", 1, "foreign"), ("backup", 1, True)):
        for boot in (present, False):
            for k in ks:
                c = {"var": var, "boot": boot, "k": k}
                if spawn or (spawn is None and boot):
                    c["spawn"] = True
                out.append(c)
    return out


def shards(tier, seed):
    nsh = {"quick": 4, "thorough": 8}[tier]     # a case is itself up to 16 (mostly sleeping) processes
    per = {"quick": 18, "thorough": 188}[tier]
    slow = {"quick": 1, "thorough": 3}[tier]
    g = grid(tier)
    rng = random.Random(seed * 7919 + 13)
    rng.shuffle(g)
    out = []
    for i in range(nsh):
        cases = []
        for j in range(per):
            c = dict(g[(i * per + j) % len(g)])
            c["seed"] = seed * 1000003 + i * 10007 + j
            cases.append(c)
        for j in range(slow if i < 2 or tier == "thorough" else 0):
            cases.insert(1 + j * (per // max(1, slow)), {"var": "plain", "boot": False, "k": 2 + (i + j) % 3, "slow": True,
                                                          "seed": seed * 1000003 + i * 10007 + 9000 + j})
        for j in range(slow if i >= 2 or tier == "thorough" else 0):
            cases.insert(2 + j * (per // max(1, slow)), {"var": "plain", "boot": False, "k": 2 + (i + j) % 3, "long": 1 + (i + j) % 2,
                                                          "seed": seed * 1000003 + i * 10007 + 9500 + j})
        for j in range(slow):
            cases.insert(3 + j * (per // max(1, slow)), {"var": "plain", "boot": bool((i + j) % 2), "k": 3 + (i + j) % 2, "tmpd": True,
                                                          "spawn": bool((i + j) % 3 == 0), "seed": seed * 1000003 + i * 10007 + 9700 + j})
        out.append({"idx": i, "nsh": nsh, "cases": cases, "tier": tier})
    return out


# ------------------------------------------------------------------ source labels (evidence only)

_LABELS = None


def labels():
    """(function name, absolute line) -> event label; labels only name what the trace saw,
    no oracle depends on them except the 'two workers inside the restore window' attribution."""
    global _LABELS
    if _LABELS is None:
        import inspect
        import wikitextprocessor.core as core
        import wikitextprocessor.luaexec as lx
        fns = {"create_db": core.Wtp.create_db, "add_page": core.Wtp.add_page, "page_exists": core.Wtp.page_exists,
               "initialize_lua": lx.initialize_lua, "add_empty_sandbox_lua_module": lx.add_empty_sandbox_lua_module}
        try:
            fns["backup_db_path"] = core.Wtp.backup_db_path.fget
        except Exception:
            pass
        lab = {}
        for name, fn in fns.items():
            try:
                lines, first = inspect.getsourcelines(fn)
            except Exception:
                continue
            for i, ln in enumerate(lines):
                l = None
                for pat, nm in KEYLINES.get(name, ()):
                    if pat in ln and not ln.lstrip().startswith(("#", "from ", "def ")):
                        l = nm
                        break
                lab[(name, first + i)] = l or "%s+%d" % (name, i)
        _LABELS = lab
    return _LABELS


def watch_anchors():
    import wikitextprocessor.core as core
    import wikitextprocessor.luaexec as lx
    W = core.Wtp
    anchors.watch({"core.create_db": W.create_db, "core.backup_db_path": W.backup_db_path, "core.add_page": W.add_page,
                   "core.page_exists": W.page_exists, "core.get_page": W.get_page, "core.expand": W.expand,
                   "core.close_db_conn": W.close_db_conn, "core.get_all_pages": W.get_all_pages,
                   "luaexec.initialize_lua": lx.initialize_lua,
                   "luaexec.add_empty_sandbox_lua_module": lx.add_empty_sandbox_lua_module,
                   "luaexec.call_lua_sandbox": lx.call_lua_sandbox, "luaexec.lua_loader": lx.lua_loader})


# ------------------------------------------------------------------ child processes

def sqlite_class(msg):
    m = msg.lower()
    if "locked" in m or "busy" in m:
        return "locked"
    if "disk i/o" in m:
        return "disk-io"
    if "malformed" in m or "not a database" in m or "corrupt" in m:
        return "corrupt"
    if "no such table" in m:
        return "no-table"
    if "readonly" in m or "read-only" in m:
        return "readonly"
    if "unable to open" in m:
        return "cantopen"
    return "other"


def exc_info(e):
    frames = []
    tb = e.__traceback__
    while tb is not None:
        co = tb.tb_frame.f_code
        if "wikitextprocessor" in co.co_filename:
            frames.append(co.co_filename.rsplit("/", 1)[-1] + ":" + co.co_name)
        tb = tb.tb_next
    names = [f.split(":")[1] for f in frames]
    if "create_db" in names or "init_wikidata_cache" in names:
        phase = "open"
    elif "initialize_lua" in names or "add_empty_sandbox_lua_module" in names:
        phase = "lua-init"
    elif "close_db_conn" in names:
        phase = "close"
    else:
        phase = "page"
    d = {"type": type(e).__name__, "msg": str(e)[:240], "frames": frames[-6:], "phase": phase,
         "inner": frames[-1] if frames else "?"}
    if isinstance(e, sqlite3.Error):
        d["sqlite"] = sqlite_class(str(e))
    return d


def fork_child(fn, *a):
    """fork; the child runs fn(*a) and _exits, never returns into the caller's stack."""
    sys.stdout.flush()
    pid = os.fork()
    if pid:
        return pid
    rc = 3
    try:
        fn(*a)
        rc = 0
    except BaseException:
        try:
            traceback.print_exc()
            sys.stderr.flush()
        except Exception:
            pass
    finally:
        os._exit(rc)


def wait_all(pids, deadline):
    """-> {pid: status or 'hang'}; processes still alive at the deadline are SIGKILLed."""
    out = {}
    left = set(pids)
    while left:
        for p in list(left):
            try:
                r, st = os.waitpid(p, os.WNOHANG)
            except ChildProcessError:
                r, st = p, 0
            if r:
                left.discard(p)
                out[p] = st
        if not left:
            break
        if time.monotonic() > deadline:
            for p in left:
                try:
                    os.kill(p, signal.SIGKILL)
                except Exception:
                    pass
                try:
                    os.waitpid(p, 0)
                except Exception:
                    pass
                out[p] = "hang"
            break
        time.sleep(0.005)
    return out


def worker_main(wi, logpath, db, plan, go_r, go_w, ready_w):
    """Body of one worker process."""
    lab = labels()
    log = open(logpath, "a", buffering=1)
    mono = time.monotonic

    def emit(*rec):
        log.write(json.dumps(rec, ensure_ascii=False) + "\n")

    for k in list(anchors._counts):
        anchors._counts[k] = 0
    rng = random.Random(plan["seed"])
    scale = plan["scale"]
    sleep = time.sleep

    def local(frame, event, arg):
        co = frame.f_code
        if event == "line":
            emit("ev", mono(), lab.get((co.co_name, frame.f_lineno), "%s@%d" % (co.co_name, frame.f_lineno - co.co_firstlineno)))
            if scale:
                sleep(rng.random() * scale)
        elif event == "return":
            emit("ev", mono(), co.co_name + "<")
        elif event == "exception":
            emit("ev", mono(), co.co_name + "!")
        return local

    def tracer(frame, event, arg):
        co = frame.f_code
        if co.co_name in TARGETS and "wikitextprocessor" in co.co_filename:
            emit("ev", mono(), co.co_name + ">")
            return local
        return None

    if go_r is not None:
        if go_w is not None:
            os.close(go_w)
        os.write(ready_w, b"x")
        os.read(go_r, 1)          # released when the parent closes its write end
        t_go = mono()
        if plan["offset"] > 0:
            time.sleep(plan["offset"])
    emit("start", mono(), os.getpid(), hash("c20-salt-probe") & 0xFFFFFFFF)
    if plan.get("tmpd"):
        import tempfile
        tempfile.tempdir = os.path.dirname(db)      # the store lies directly in this process's temp directory
    from wikitextprocessor import Wtp
    ctx = None
    sys.settrace(tracer)
    try:
        try:
            ctx = Wtp(db_path=db, quiet_output=True)
        except BaseException as e:
            sys.settrace(None)
            emit("exc", mono(), None, exc_info(e))
            ctx = None
        if ctx is not None and plan.get("role") == "reader":
            sys.settrace(None)
            try:
                it = ctx.get_all_pages()
                rows = [next(it)]
                emit("hold", mono())
                time.sleep(plan["hold"])
                rows.extend(it)
                emit("rows", mono(), [[p.title, p.namespace_id, p.redirect_to, int(bool(p.need_pre_expand)), p.body, p.model] for p in rows])
            except BaseException as e:
                emit("exc", mono(), "<get_all_pages>", exc_info(e))
        elif ctx is not None:
            if plan.get("iter"):
                # the worker takes its pages from the get_all_pages() generator and processes each inside
                # the loop: the connection's SELECT stays unfinished during the page work
                wanted = set(plan["order"])

                def source():
                    emit("iter-open", mono())
                    try:
                        for page in ctx.get_all_pages([0]):
                            if page.title in wanted:
                                yield page.title, page
                    except BaseException as e:
                        emit("exc", mono(), "<get_all_pages>", exc_info(e))
                    emit("iter-close", mono())
            else:
                def source():
                    for t in plan["order"]:
                        yield t, None
            for title, pg in source():
                try:
                    emit("begin", mono(), title)
                    ctx.start_page(title)
                    body = ctx.get_page_body(title, 0) if pg is None else pg.body
                    out = None
                    if body is not None:
                        with cpu_guard(20):
                            out = ctx.expand(body)
                    emit("page", mono(), title, out, len(ctx.errors), len(ctx.warnings))
                except CpuBudget as e:
                    emit("exc", mono(), title, {"type": "CpuBudget", "msg": "20 s", "frames": [], "phase": "page", "inner": "?"})
                except BaseException as e:
                    emit("exc", mono(), title, exc_info(e))
                if plan.get("think"):
                    time.sleep(plan["think"])      # per-page work outside the package
        sys.settrace(None)
        if ctx is not None:
            there = os.path.exists(db)
            try:
                ctx.close_db_conn()
            except BaseException as e:
                emit("exc", mono(), "<close>", dict(exc_info(e), phase="close"))
            emit("closed", mono(), there, os.path.exists(db))
    finally:
        sys.settrace(None)
    emit("anchors", anchors.snapshot())
    emit("end", mono())
    log.close()


def read_log(path):
    out = []
    try:
        with open(path) as f:
            for ln in f:
                try:
                    out.append(json.loads(ln))
                except Exception:
                    pass
    except FileNotFoundError:
        pass
    return out


# ------------------------------------------------------------------ case preparation

def site_rows(site, boot):
    from vf.lua import shim
    rows = list(site.rows())
    if not shim.real_present():
        rows.append(("Module:ustring:ustring", 828, shim.USTRING, "Scribunto", None))
        rows.append(("Module:libraryUtil", 828, shim.LIBUTIL, "Scribunto", None))
    if boot == "foreign":
        rows.append((BOOT[0], BOOT[1]) + FOREIGN_BOOT[len(rows) % len(FOREIGN_BOOT)] + (None,))
    elif boot:
        rows.append((BOOT[0], BOOT[1], BOOT[4], BOOT[5], None))
    return rows


def _store(ctx, rows):
    for t, ns, body, model, redir in rows:
        ctx.add_page(t, ns, body, redirect_to=redir, model=model)


def prep_build(db, case):
    """(child) build the files of the case in the directory of db."""
    from wikitextprocessor import Wtp
    from wikitextprocessor.interwiki import init_interwiki_map
    site, stale = sites(case)
    boot = case["boot"]
    var = case["var"]
    ctx = Wtp(db_path=db, quiet_output=True)
    init_interwiki_map(ctx)
    if var in ("backup", "nodb"):
        _store(ctx, site_rows(site, boot))
        ctx.db_conn.commit()
        ctx.backup_db()
        _store(ctx, site_rows(stale, boot))       # pages overwritten after the backup was taken
        ctx.add_page("Ghost", 0, "only in the pre-restore db", model="wikitext")
    elif var == "wal":
        _store(ctx, site_rows(stale, boot))
    else:
        _store(ctx, site_rows(site, boot))
    ctx.db_conn.commit()
    ctx.close_db_conn()
    if var == "nodb":
        for suf in ("", "-wal", "-shm"):
            try:
                os.unlink(db + suf)
            except FileNotFoundError:
                pass


def prep_predecessor(db, case):
    """(child) a predecessor that commits the current site into the WAL and is SIGKILLed."""
    from wikitextprocessor import Wtp
    site, stale = sites(case)
    ctx = Wtp(db_path=db, quiet_output=True)
    _store(ctx, site_rows(site, case["boot"]))
    ctx.db_conn.commit()
    ctx.add_page("Zombie", 0, "never committed", model="wikitext")
    os.kill(os.getpid(), signal.SIGKILL)


def sites(case):
    site = c20_site.gen_site(random.Random(case["seed"]))
    stale = c20_site.gen_site(random.Random(case["seed"]), mark="-old")
    return site, stale


def dump_pages(path):
    """Plain sqlite3 dump of the pages table -> {(title, ns): row}."""
    con = sqlite3.connect(path, timeout=20)
    try:
        rows = con.execute("SELECT title, namespace_id, redirect_to, need_pre_expand, body, model FROM pages").fetchall()
        integ = [r[0] for r in con.execute("PRAGMA integrity_check").fetchall()]
    finally:
        con.close()
    return {(r[0], r[1]): (r[0], r[1], r[2], int(bool(r[3])), r[4], r[5]) for r in rows}, integ


def plans(case):
    """Seed-derived schedule perturbation of every worker."""
    site, _ = sites(case)
    rng = random.Random(case["seed"] * 31 + 7)
    k = case["k"]
    lua_pages = [t for t in site.order if site.uses_lua(t)]
    lua_first = rng.random() < 0.5 or case.get("slow") or case.get("long")
    out = []
    for w in range(k):
        n = len(site.order)
        order = rng.sample(site.order, rng.randint(max(1, n // 2), n))
        if lua_first and lua_pages:
            first = rng.choice(lua_pages)
            order = [first] + [t for t in order if t != first]
        r = rng.random()
        offset = rng.random() * 0.05 if r < 0.75 else 0.1 + rng.random() * 0.2
        if rng.random() < 0.25:
            offset = 0.0
        scale = rng.choice([0.0, 0.002, 0.008, 0.008, 0.03, 0.03])
        if case.get("slow"):
            offset = 0.35 + rng.random() * 0.4
            scale = rng.choice([0.0, 0.002, 0.008])
        if case.get("spawn") and case["var"] in ("backup", "nodb"):
            offset = 0.0 if rng.random() < 0.7 else rng.random() * 0.02
            scale = rng.choice([0.008, 0.03, 0.03])
        think = 0.0
        if case.get("long"):
            scale = rng.choice([0.0, 0.002, 0.008])
            if w < case["long"]:
                # long-lived: first page needs Lua, then LONG seconds of 'other work' spread over its pages
                offset = 0.0 if w == 0 else 0.2 + rng.random() * 0.3
                think = LONG / len(order)
            else:
                offset = 0.3 + rng.random() * 0.5
                think = rng.random() * 0.15
        it = rng.random() < 0.35
        if case.get("tmpd") and w == k - 1:
            offset = 1.2 + rng.random() * 0.5          # starts when the first workers have already closed
        out.append({"seed": case["seed"] * 131 + w, "offset": offset, "scale": scale, "order": order, "think": think,
                    "iter": it, "tmpd": bool(case.get("tmpd"))})
    if case.get("slow"):
        out.append({"seed": 0, "offset": 0.0, "scale": 0.0, "order": [], "role": "reader", "hold": HOLD})
    return out, lua_first


# ------------------------------------------------------------------ one case

def execute(case, obs=None):
    """Run one case; -> (anomalies [(sig, msg)], info dict)."""
    base = os.path.join(os.environ.get("TMPDIR") or "/tmp", "c20_%d_%d" % (os.getpid(), time.monotonic_ns() % 10**9))
    os.makedirs(base)
    try:
        return _execute(case, obs, base)
    finally:
        shutil.rmtree(base, ignore_errors=True)


def _execute(case, obs, base):
    A, B, C = (os.path.join(base, d) for d in "ABC")
    os.makedirs(A)
    db = os.path.join(A, "site.db")
    bk = os.path.join(A, "site_backup.db")
    var = case["var"]
    info = {"harness": []}
    st = wait_all([fork_child(prep_build, db, case)], time.monotonic() + 60)
    if list(st.values()) != [0]:
        info["harness"].append("prep_build failed: %r" % st)
        return [], info
    if var == "wal":
        st = wait_all([fork_child(prep_predecessor, db, case)], time.monotonic() + 60)
        if not os.path.exists(db + "-wal") or os.path.getsize(db + "-wal") == 0:
            info["harness"].append("predecessor left no WAL")
            return [], info
    has_bk = os.path.exists(bk)
    if has_bk != (var in ("backup", "nodb")):
        info["harness"].append("backup file presence %r does not match variant %s" % (has_bk, var))
        return [], info
    shutil.copytree(A, B)
    shutil.copytree(A, C)
    before, _ = dump_pages(os.path.join(C, "site_backup.db" if has_bk else "site.db"))
    site, stale = sites(case)

    # single-process reference on the byte copy B
    refplan = {"seed": 0, "offset": 0, "scale": 0.0, "order": list(site.order)}
    st = wait_all([fork_child(worker_main, "ref", os.path.join(base, "ref.jsonl"), os.path.join(B, "site.db"), refplan, None, None, None)],
                  time.monotonic() + 120)
    ref, ref_exc = {}, {}
    for rec in read_log(os.path.join(base, "ref.jsonl")):
        if rec[0] == "page":
            ref[rec[2]] = (rec[3], rec[4], rec[5])
        elif rec[0] == "exc":
            ref_exc[rec[2]] = rec[3]
    if list(st.values()) != [0] or None in ref_exc:
        info["harness"].append("single-process reference failed: %r %r" % (st, ref_exc.get(None)))
        return [], info
    model_ok = {}
    for t in site.order:
        exp = site.expected(t)
        model_ok[t] = t in ref and ref[t][0] == exp
        if not model_ok[t] and t not in ref_exc:
            info["harness"].append("model != single process on %s: %r vs %r" % (t, exp, ref.get(t)))

    # the concurrent run
    pl, lua_first = plans(case)
    go_r, go_w = os.pipe()
    ready_r, ready_w = os.pipe()
    pids = []
    procs = []
    if case.get("spawn"):
        srng = random.Random(case["seed"] * 17 + 3)
        salts = srng.sample(range(1, 4000000000), len(pl))
        for w, plan in enumerate(pl):
            argf = os.path.join(base, "w%d.args.json" % w)
            with open(argf, "w") as f:
                json.dump({"wi": w, "log": os.path.join(base, "w%d.jsonl" % w), "db": db, "plan": plan, "go_r": go_r, "ready_w": ready_w}, f)
            env = dict(os.environ, PYTHONHASHSEED=str(salts[w]) if w % 4 != 3 else "random")
            with open(os.path.join(base, "w%d.err" % w), "w") as ef:
                p = subprocess.Popen([sys.executable, "-m", "vf.props.c20", "--worker", argf], env=env, pass_fds=(go_r, ready_w),
                                     stdout=ef, stderr=subprocess.STDOUT,
                                     cwd=os.path.dirname(os.path.dirname(os.path.dirname(os.path.abspath(__file__)))))
            procs.append(p)
            pids.append(p.pid)
    else:
        for w, plan in enumerate(pl):
            pids.append(fork_child(worker_main, w, os.path.join(base, "w%d.jsonl" % w), db, plan, go_r, go_w, ready_w))
    os.close(go_r)
    os.close(ready_w)
    got = 0
    t_end = time.monotonic() + 30
    while got < len(pl) and time.monotonic() < t_end:
        r, _, _ = select.select([ready_r], [], [], 0.5)
        if r:
            b = os.read(ready_r, 64)
            if not b:
                break
            got += len(b)
    os.close(go_w)     # barrier opens: every worker's read() returns
    os.close(ready_r)
    t_go = time.monotonic()
    st = wait_all(pids, time.monotonic() + (75 if case.get("slow") or case.get("long") else 60))
    wall = time.monotonic() - t_go
    for p in procs:
        p.returncode = 0      # already reaped by wait_all
    if got < len(pl):
        info["harness"].append("only %d of %d workers reached the barrier" % (got, len(pl)))

    logs = [read_log(os.path.join(base, "w%d.jsonl" % w)) for w in range(len(pl))]
    anomalies = []   # (class, detail dict)

    # ---- per-worker checks
    events = []       # (t, w, label)
    intervals = {"create_db": [], "boot": []}
    exc_types = {}
    pages_done = 0
    anch = {}
    ends = {}
    salts_seen, crit_sections = [], []
    iter_span, closers = {}, []
    for w, (plan, lg) in enumerate(zip(pl, logs)):
        status = st.get(pids[w])
        ended = any(r[0] == "end" for r in lg)
        ends[w] = max([r[1] for r in lg if r[0] == "end"] or [float("inf")])
        for r in lg:
            if r[0] == "start" and len(r) > 3:
                salts_seen.append(r[3])
            elif r[0] == "iter-open":
                iter_span[w] = [r[1], float("inf")]
            elif r[0] == "iter-close" and w in iter_span:
                iter_span[w][1] = r[1]
            elif r[0] == "closed":
                closers.append((r[1], w, bool(r[2]), bool(r[3])))
        # restore critical section of this worker: from the line after 'BEGIN EXCLUSIVE' to the lock's close line
        evs = [(r[1], r[2]) for r in lg if r[0] == "ev"]
        locks = [i for i, (_, l) in enumerate(evs) if l == "restore.lock"]
        if len(locks) >= 2 and locks[0] + 1 < len(evs):
            crit_sections.append((evs[locks[0] + 1][0], evs[locks[-1]][0], w))
        seen = {}
        t_in = {}
        for r in lg:
            if r[0] == "ev":
                events.append((r[1], w, r[2]))
                if r[2] == "create_db>":
                    t_in["c"] = r[1]
                elif r[2] == "create_db<" and "c" in t_in:
                    intervals["create_db"].append((t_in.pop("c"), r[1], w))
                elif r[2] == "add_empty_sandbox_lua_module>":
                    t_in["b"] = r[1]
                elif r[2] == "add_empty_sandbox_lua_module<" and "b" in t_in:
                    intervals["boot"].append((t_in.pop("b"), r[1], w))
            elif r[0] == "anchors":
                for k2, v in r[1].items():
                    anch[k2] = anch.get(k2, 0) + v
        if "c" in t_in:
            intervals["create_db"].append((t_in["c"], float("inf"), w))
        if obs is not None:
            obs.check("worker.no-failure")
        if status == "hang":
            last = [r for r in lg if r[0] in ("ev", "page", "start")][-1:] or [["?", 0, "?"]]
            anomalies.append(("hang", {"w": w, "last": last[0][2] if len(last[0]) > 2 else "?", "n_pages": sum(1 for r in lg if r[0] == "page")}))
        elif not ended or status != 0:
            anomalies.append(("died", {"w": w, "status": status}))
        t_prev = None
        for r in lg:
            if r[0] == "exc":
                title, d = r[2], r[3]
                d["waited"] = round(r[1] - t_prev, 3) if t_prev is not None else 0.0
                exc_types[d["type"]] = exc_types.get(d["type"], 0) + 1
                rd = ref_exc.get(title)
                if rd is not None and rd["type"] == d["type"] and rd.get("inner") == d.get("inner"):
                    continue   # the single process fails the same way on this page: not a C20 matter
                anomalies.append(("exc", dict(d, w=w, title=title, t=r[1],
                                              own_cursor_open=bool(w in iter_span and iter_span[w][0] <= r[1] <= iter_span[w][1]))))
            elif r[0] == "page":
                pages_done += 1
                title, out = r[2], r[3]
                got_t = (out, r[4], r[5])
                bad = None
                if title in ref:
                    if obs is not None:
                        obs.check("result.vs-single")
                    if got_t != ref[title]:
                        bad = "single"
                if model_ok.get(title):
                    if obs is not None:
                        obs.check("result.vs-model")
                    if out != site.expected(title):
                        bad = bad or "model"
                if bad:
                    if out is None:
                        sub = "missing-page"
                    elif out == stale.expected(title):
                        sub = "stale-content"
                    elif "Template:" in out or "Lua" in out or "error" in out:
                        sub = "missing-dependency-or-lua-error"
                    elif out == ref[title][0]:
                        sub = "messages-differ"
                    else:
                        sub = "other"
                    anomalies.append(("result", {"w": w, "title": title, "sub": sub, "got": got_t, "want": ref.get(title),
                                                 "page": site.render(site.pages[title])[:300]}))
            if r[0] in ("page", "start", "hold", "exc", "rows", "begin", "iter-open", "iter-close", "closed") or (r[0] == "ev" and not r[2].endswith(("<", "!"))):
                t_prev = r[1]
            if r[0] == "rows":
                rows = {(x[0], x[1]): tuple(x) for x in r[2]}
                for key, row in before.items():
                    if obs is not None:
                        obs.check("reader.row")
                    if rows.get(key) != row:
                        anomalies.append(("result", {"w": w, "title": "<get_all_pages>", "sub": "reader-row-differs", "got": rows.get(key), "want": row}))
                        break
                for key, row in rows.items():
                    if key not in before and row != BOOT:
                        anomalies.append(("result", {"w": w, "title": "<get_all_pages>", "sub": "reader-extra-row", "got": row, "want": None}))
                        break

    # ---- pages table after the run
    after, integ = None, None
    table_bad = None
    if not os.path.exists(db):
        table_bad = ("db-file-missing", "the database file is gone after the run")
    else:
        try:
            after, integ = dump_pages(db)
        except sqlite3.Error as e:
            table_bad = ("unreadable", "%s: %s" % (type(e).__name__, e))
    boot_added = False
    if after is not None:
        for key, row in before.items():
            if obs is not None:
                obs.check("table.row")
            if key not in after:
                table_bad = table_bad or ("row-missing", "row %r is gone" % (key,))
            elif after[key] != row and key == BOOT[:2]:
                anomalies.append(("table", {"sub": "bootstrap-page-overwritten(present with other content)",
                                            "msg": "row %r: %r -> %r" % (key, row, after[key])}))
            elif after[key] != row:
                table_bad = table_bad or ("row-differs", "row %r: %r -> %r" % (key, row, after[key]))
        for key, row in after.items():
            if key not in before:
                if row == BOOT:
                    boot_added = True
                else:
                    table_bad = table_bad or ("extra-row", "row %r appeared: %r" % (key, row))
        if obs is not None:
            obs.check("db.integrity")
        if integ != ["ok"]:
            anomalies.append(("integrity", {"msg": repr(integ)[:300]}))
    if table_bad:
        anomalies.append(("table", {"sub": table_bad[0], "msg": table_bad[1][:400]}))

    # ---- trace facts
    events.sort()
    # workers that entered (or, on trees that serialise the restore, contended for) the restore window
    restorers = sorted({w for _, w, l in events if l in ("db.unlink", "bk.rename", "restore.contend")})
    raced = has_bk and len(restorers) >= 2
    contenders = {w for _, w, l in events if l == "restore.contend"}
    crit = []
    rank = {}
    seenwl = set()
    for t, w, l in events:
        if l in CRITICAL and (w, l) not in seenwl:
            seenwl.add((w, l))
            rank.setdefault(w, len(rank))
            crit.append("%d:%s" % (rank[w], l))

    def overlaps(iv):
        n = 0
        iv = sorted(iv)
        for i in range(len(iv)):
            for j in range(i + 1, len(iv)):
                if iv[j][0] < iv[i][1]:
                    n += 1
        return n
    ov_c, ov_b = overlaps(intervals["create_db"]), overlaps(intervals["boot"])
    cs_overlap = overlaps(crit_sections)
    # on trees that serialise the restore: when every contender's critical section was seen and no two
    # overlapped, mutual exclusion held in this run and nothing is attributed to a restore race
    if contenders and len(crit_sections) >= len(contenders) and cs_overlap == 0:
        raced = False

    tags = []
    if has_bk:
        tags.append("backup")
    if var == "nodb":
        tags.append("db-file-absent")
    if var == "wal":
        tags.append("wal-from-killed-predecessor")
    if case.get("slow"):
        tags.append("slow-reader")
    if case.get("long"):
        tags.append("long-lived-worker")
    if case.get("spawn"):
        tags.append("separately-started-interpreters")
    if case.get("tmpd"):
        tags.append("db-in-gettempdir")
    boot_tag = "bootstrap-present" if case["boot"] else "bootstrap-absent"

    # bootstrap writes: (worker, time of the add line, time of the commit line or None)
    boot_add, boot_commit, lua_start, boot_abort = {}, {}, {}, {}
    for t, w, l in events:
        if l == "boot.add":
            boot_add.setdefault(w, t)
        elif l == "boot.commit":
            boot_commit.setdefault(w, t)
        elif l == "add_empty_sandbox_lua_module>":
            lua_start.setdefault(w, t)
        elif l == "add_empty_sandbox_lua_module!":
            boot_abort.setdefault(w, t)
    for w, t in lua_start.items():
        boot_add.setdefault(w, t)      # trees that do not write through add_page(): the function's entry stands for the write
    late_lua_starts = sum(1 for w, t in lua_start.items()
                          if any(w2 != w and t0 < t and ends.get(w2, 0) - t >= 5.0 for w2, t0 in boot_add.items()))
    # a context's close removed the shared store (observed by the closing worker itself)
    deleted_by_close = bool(case.get("tmpd")) and any(there and not after_ for _, _, there, after_ in closers)
    # iterate-mode workers whose first Lua use came after another worker's bootstrap commit while
    # their own get_all_pages() cursor was open (the stale-read-snapshot situation)
    # (a commit line event is logged BEFORE the commit executes; it is complete when the function returns)
    def foreign_commit_during(w, t):
        # another worker was inside its bootstrap write between this worker's cursor opening and t
        return any(w2 != w and t0 < t and t1 > iter_span[w][0] for t0, t1, w2 in intervals["boot"])
    stale_snapshot_lua = sum(1 for w, t in lua_start.items() if w in iter_span and iter_span[w][0] <= t <= iter_span[w][1]
                             and foreign_commit_during(w, t))
    # workers whose own bootstrap write was aborted (add line reached, commit line never) while their
    # get_all_pages() cursor was open and another worker had committed since the cursor was opened
    stale_abort = {w for w, t in boot_abort.items() if w in iter_span and iter_span[w][0] <= t <= iter_span[w][1]
                   and foreign_commit_during(w, t)}
    out = []
    symptoms = {}
    first_lua_fail = {}
    follow_on = 0
    for cls, d in anomalies:
        if deleted_by_close and cls in ("result", "table", "integrity") or (deleted_by_close and cls == "exc" and d.get("sqlite") != "locked"
                                                                            and d["type"] not in ("IntegrityError", "CpuBudget")):
            sym = {"exc": "raises:" + str(d.get("type")), "result": "page-result:" + str(d.get("sub")),
                   "table": "pages-table:" + str(d.get("sub"))}.get(cls, cls)
            symptoms["tmpd:" + sym] = symptoms.get("tmpd:" + sym, 0) + 1
            out.append((TMPD, [], json.dumps(dict(d, symptom=sym, closers=[(w, a, b) for _, w, a, b in closers][:6]), ensure_ascii=False, default=str)[:700]))
            continue
        w_ = d.get("w")
        if w_ in first_lua_fail and ((cls == "exc" and d.get("phase") == "page" and str(d.get("inner", "")).startswith("luaexec.py"))
                                     or (cls == "result" and d.get("sub") == "missing-dependency-or-lua-error")):
            # the same worker's Lua initialisation already failed: a consequence, reported under that mechanism
            follow_on += 1
            out.append((first_lua_fail[w_][0], first_lua_fail[w_][1], json.dumps(dict(d, follows="failed Lua initialisation of this worker"), ensure_ascii=False, default=str)[:700]))
            continue
        if cls == "result" and w_ in stale_abort and d.get("got") and "OperationalError" in str(d["got"][0]):
            # the lock failure of this worker's bootstrap write was caught by a parser function's error
            # handler (`#if: OperationalError` in the output) instead of propagating
            out.append((STALE, [], json.dumps(dict(d, symptom="caught by the enclosing parser function, error text in the page result"),
                                              ensure_ascii=False, default=str)[:700]))
            continue
        if cls == "exc" and d.get("sqlite") == "locked":
            # trace fact: another worker wrote the bootstrap row >= 2 s before this failure, never reached
            # its commit line before the failure, and was still alive when it happened
            d["holder_uncommitted"] = any(
                w2 != d["w"] and d["t"] - t0 >= 2.0 and not (boot_commit.get(w2, float("inf")) < d["t"]) and ends.get(w2, 0) > d["t"] - 0.5
                for w2, t0 in boot_add.items())
        sig, stags = signature(cls, d, raced, tags, boot_tag)
        if sig == RACE:
            sym = {"exc": "raises:" + str(d.get("type")) + ("(%s)" % d["sqlite"] if d.get("sqlite") else ""),
                   "result": "page-result:" + str(d.get("sub")), "table": "pages-table:" + str(d.get("sub")),
                   "integrity": "integrity-check"}.get(cls, cls)
            symptoms[sym] = symptoms.get(sym, 0) + 1
            d = dict(d, symptom=sym, restorers=restorers)
        if cls == "exc" and d.get("phase") == "lua-init":
            first_lua_fail.setdefault(w_, (sig, stags))
        out.append((sig, stags, json.dumps(d, ensure_ascii=False, default=str)[:700]))

    info.update({"crit": crit, "restorers": restorers, "raced": raced, "contended": has_bk and len(restorers) >= 2, "ov_create_db": ov_c, "ov_boot": ov_b,
                 "wall": wall, "pages_done": pages_done, "exc_types": exc_types, "anchors": anch, "boot_added": boot_added,
                 "rows": len(before), "lua_first": bool(lua_first), "workers": len(pl), "site": site,
                 "n_events": len(events), "boot_written": len({w for _, w, l in events if l == "boot.add"}), "late_lua_starts": late_lua_starts, "salts": salts_seen, "cs_overlap": cs_overlap, "iter_workers": len(iter_span), "stale_snapshot_lua": stale_snapshot_lua,
                 "deleted_by_close": deleted_by_close, "follow_on": follow_on, "late_closers": sum(1 for t, w, a, b in closers if not a), "race_symptoms": symptoms, "anomaly_classes": sorted({c for c, _ in anomalies})})
    return out, info


def signature(cls, d, raced, tags, boot_tag):
    """Mechanism signature -> (rule, candidate feature tags).  The rule names what failed; the tags are
    the variant features of the case -- run_shard() keeps only those every occurrence shares while
    cases without them ran clean (delta-minimisation over the shard instead of re-running schedules)."""
    if cls == "exc":
        typ, phase, sq = d["type"], d["phase"], d.get("sqlite")
        lock_like = sq == "locked" or typ in ("IntegrityError", "CpuBudget")
        if raced and not lock_like:
            return RACE, [t for t in tags if t == "separately-started-interpreters"]
        if sq == "locked":
            # how long the failing statement blocked tells contention that outlasted the busy timeout
            # (seconds) from a connection that does not wait at all
            if d.get("waited", 0) >= 2.0:
                return "worker-raises:%s(locked)/after-busy-wait>=2s%s" % (
                    typ, "/bootstrap-write-of-a-live-worker-left-uncommitted" if d.get("holder_uncommitted") else ""), []
            if d.get("own_cursor_open") and typ == "OperationalError":
                return STALE, []
            return "worker-raises:%s(locked)/without-waiting" % typ, []
        name = typ + ("(%s)" % sq if sq and sq != "other" else "")
        if sq is None and typ not in ("IntegrityError", "CpuBudget"):
            name += "@" + d.get("inner", "?")
        return "worker-raises:%s@%s" % (name, phase), []
    if cls == "result":
        if raced:
            return RACE, [t for t in tags if t == "separately-started-interpreters"]
        return "result-differs-from-single-process:%s" % d["sub"], tags
    if cls in ("table", "integrity"):
        if raced:
            return RACE, [t for t in tags if t == "separately-started-interpreters"]
        if cls == "table" and d["sub"].startswith("bootstrap-page-overwritten"):
            return "pages-table-changed:" + d["sub"], []
        return "pages-table-changed:%s" % (d["sub"] if cls == "table" else "integrity-check"), tags
    if cls == "hang":
        return "worker-hang", tags
    if cls == "died":
        return "worker-died", tags
    return cls, tags


def full_sig(rule, tags):
    return rule + ("/" + "+".join(sorted(tags)) if tags else "")


def case_features(case):
    f = set()
    if case["var"] in ("backup", "nodb"):
        f.add("backup")
    if case["var"] == "nodb":
        f.add("db-file-absent")
    if case["var"] == "wal":
        f.add("wal-from-killed-predecessor")
    if case.get("slow"):
        f.add("slow-reader")
    if case.get("long"):
        f.add("long-lived-worker")
    if case.get("spawn"):
        f.add("separately-started-interpreters")
    if case.get("tmpd"):
        f.add("db-in-gettempdir")
    f.add("bootstrap-present" if case["boot"] else "bootstrap-absent")
    return f


def case_tag(case):
    return ("spawn:" if case.get("spawn") else "") + "%s/%s/k%d%s" % (case["var"], ("foreignboot" if case["boot"] == "foreign" else "boot") if case["boot"] else "noboot", case["k"], "/slow" if case.get("slow") else "/tmpd" if case.get("tmpd") else ("/long%d" % case["long"] if case.get("long") else ""))


def run_shard(spec):
    obs = Obs()
    import wikitextprocessor  # noqa: F401  (imported before any fork)
    labels()
    watch_anchors()
    ran, pending = [], {}
    for case in spec["cases"]:
        viol, info = execute(case, obs)
        if info["harness"]:
            obs.count("harness-problem")
            obs.inconclusive.append("case %s: %s" % (case_tag(case), "; ".join(info["harness"])[:300]))
            if "crit" not in info:
                continue
        key = case_tag(case) + "|" + " ".join(info["crit"])
        nontriv = info["ov_create_db"] > 0 or info["ov_boot"] > 0
        obs.case(key, nontrivial=nontriv, sample={"case": case, "critical_event_order": info["crit"][:40],
                                                  "overlaps_in_create_db": info["ov_create_db"], "wall_s": round(info["wall"], 2)})
        obs.add("interleavings", h64(key))
        obs.add("k", case["k"])
        obs.add("variants", case_tag(case).rsplit("/k", 1)[0])
        obs.count("runs")
        obs.count("workers", info["workers"])
        obs.count("pages-processed", info["pages_done"])
        obs.count("trace-events", info["n_events"])
        obs.count("variant." + {"plain": "plain", "backup": "backup", "nodb": "backup", "wal": "wal"}[case["var"]])
        if case["var"] == "nodb":
            obs.count("variant.nodb")
        obs.count("variant.bootstrap-" + ("present" if case["boot"] else "absent"))
        if case.get("slow"):
            obs.count("variant.slow-reader")
        if case.get("spawn"):
            obs.count("variant.spawn")
            for h in info["salts"]:
                obs.add("hash-salts", h)
            if case["var"] in ("backup", "nodb"):
                obs.count("spawn+backup.runs")
                if len(info["restorers"]) >= 2:
                    obs.count("spawn+backup.restore-contended-by>=2.runs")
        obs.count("iterate-mode.workers", info["iter_workers"])
        obs.count("iterate-mode.first-lua-after-foreign-commit-with-own-cursor-open", info["stale_snapshot_lua"])
        obs.count("follow-on-failures-after-failed-lua-init", info["follow_on"])
        if case["boot"] == "foreign":
            obs.count("variant.bootstrap-present-with-other-content")
        if case.get("tmpd"):
            obs.count("variant.db-in-gettempdir")
            if info["deleted_by_close"]:
                obs.count("db-in-gettempdir.store-removed-by-a-close.runs")
        if info["cs_overlap"]:
            obs.count("restore.critical-sections-overlapped.runs")
        if case.get("long"):
            obs.count("variant.long-lived-worker")
            obs.count("long-lived.lua-starts-while-bootstrapper-alive>5s", info["late_lua_starts"])
        if info["lua_first"]:
            obs.count("variant.lua-first")
        obs.count("overlap.create_db.pairs", info["ov_create_db"])
        obs.count("overlap.bootstrap-window.pairs", info["ov_boot"])
        if info["ov_create_db"]:
            obs.count("overlap.create_db.runs")
        if info["ov_boot"]:
            obs.count("overlap.bootstrap-window.runs")
        if info["raced"]:
            obs.count("restore.attributed-to-race.runs")
        if info["contended"]:
            obs.count("restore-window-entered-by>=2.runs")
        obs.maxi("restorers-in-one-run", len(info["restorers"]))
        if info["boot_added"]:
            obs.count("bootstrap-row-added.runs")
        obs.count("bootstrap-write.workers", info["boot_written"])
        if case["boot"] and info["boot_written"]:
            # observation, not a rule: the existence check looks the title up with '_' turned into
            # blanks, never finds the stored row, and every worker re-writes it (same values)
            obs.count("bootstrap-rewritten-although-present.runs")
        obs.count("rows-before", info["rows"])
        obs.maxi("case_wall_s", round(info["wall"], 2))
        for t, n in info["exc_types"].items():
            obs.count("exception." + t, n)
        for c in info["anomaly_classes"]:
            obs.count("anomaly." + c)
        for c, n in info["race_symptoms"].items():
            obs.count(("symptom." + c) if c.startswith("tmpd:") else ("restore-race.symptom." + c), n)
        site = info["site"]
        for t in site.order:
            for f in site.features(t):
                obs.add("page-features", f)
        for k2, v in info["anchors"].items():
            obs.anchors[k2] = obs.anchors.get(k2, 0) + v
        ran.append(case_features(case))
        for rule, tags, msg in viol:
            pending.setdefault(rule, []).append((set(tags), msg, case))
    # feature minimisation over the shard: a tag stays in the signature only if every occurrence of
    # the rule carries it AND at least two cases without it ran (and, by construction, were clean)
    for rule, occ in pending.items():
        common = set.intersection(*[t for t, _, _ in occ])
        keep = {f for f in common if sum(1 for r in ran if f not in r) >= 2}
        for _, msg, case in occ:
            obs.violation(full_sig(rule, keep), msg, case)
    return obs


def replay(case, tries=6):
    """Schedules are not deterministic: the case is re-run up to `tries` times until it fails.
    Signatures are reported as the rule with ALL feature tags of the case (a single case cannot
    be feature-minimised); 'rules' lists them without tags."""
    import wikitextprocessor  # noqa: F401
    labels()
    watch_anchors()
    runs = []
    for i in range(tries):
        viol, info = execute(case, None)
        runs.append({"critical_event_order": info.get("crit"), "harness": info["harness"]})
        if viol:
            return {"violations": sorted({full_sig(r, t) for r, t, _ in viol}), "rules": sorted({r for r, _, _ in viol}),
                    "details": [(r, m) for r, _, m in viol[:10]], "attempt": i + 1,
                    "critical_event_order": info.get("crit")}
    return {"violations": [], "attempts": tries, "runs": runs}


def _spawned_worker(argf):
    """Entry point of a separately started worker interpreter (spawn cases)."""
    with open(argf) as f:
        a = json.load(f)
    from vf.core import shard
    shard.prepare()
    import wikitextprocessor  # noqa: F401
    labels()
    watch_anchors()
    worker_main(a["wi"], a["log"], a["db"], a["plan"], a["go_r"], None, a["ready_w"])


if __name__ == "__main__":
    if len(sys.argv) == 3 and sys.argv[1] == "--worker":
        rc = 3
        try:
            _spawned_worker(sys.argv[2])
            rc = 0
        except BaseException:
            traceback.print_exc()
        sys.stdout.flush()
        os._exit(rc)
