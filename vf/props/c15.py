"""C15 -- nowiki content and comments are inert and recoverable.

Part N (nowiki): for generated content c (token soups over the C01 alphabet, entities excluded, no closing
tag), <nowiki>c</nowiki> is embedded in ~25 contexts (top level, template argument positional/named,
expanded/unexpanded template, parser-function argument, argument default, template body, link target/text,
external link text, list items, table cells, heading, HTML element, nested combinations) and
  * expand() must equal the context's expected text with Q(c) (Q = documented 15-character entity map,
    re-derived in vf.ref.c15_ref), decoding the 15 entities must give c back, and a recording template_fn
    must see no template call other than the wrapper's own;
  * parse() (plain / pre_expand / expand_all) at top level must give exactly one text child == Q(c);
    embedded, the tree must be the tree obtained for a sentinel content with the sentinel replaced by Q(c)
    (metamorphic: the tree shape does not depend on c).
Part K (comments): f(x) == f(x with each closed comment outside nowiki, and the newline directly before it,
deleted) for f in {expand, canonical parse}; both sides are runs of the real code, the deletion is the
reference model's left-to-right scan.
Violations are delta-minimised (ddmin over characters) and the signature is the failed rule + the
character-class shape of the 1-minimal witness.
"""
from __future__ import annotations

import os
import random
import re
import time

from vf.core.obs import Obs, cpu_guard, CpuBudget, exc_sig
from vf.core import anchors
from vf.core.canon import canon
from vf.ref import c15_ref as R

LEVEL = "exploration"
RULE = ("part N: content c = token soup (1-14 tokens over the C01 alphabet: every token_list alternative, allowed HTML tags in "
        "11 spellings, magic words, URL schemes, include/pre/comment/nowiki openers, separators | || }} ]] , list/table markers at "
        "line start; '&' only when no entity is formed; closing tag removed; 4% tagged placeholder-range class; bounded-exhaustive "
        "part: every single map character and every ordered pair of map characters) x opener/closer spellings x embedding context "
        "(28) for expand, x 3 parse modes at top level, x 17 embedding contexts for parse (incl. directly after the URL of an external "
        "link), x 12 adjacency contexts (closed inline construct -- link, external link, template, argument, bold, HTML element, magic "
        "word, text -- directly followed by the nowiki: the tree must be the construct's tree + one text node); content classes: soup, "
        "separators, strict (map characters + letters only, asserted in the expand-first parse modes), near-miss spellings of the closing "
        "tag (U+212A/U+0131/U+0130 letters, U+00A0/U+2003/U+0085/U+3000 blanks) followed by markup, blank-only; part K: token soups with 1-4 inserted "
        "comments (content from the same alphabet, newline before/after, adjacent, at start/end) and structured embeddings "
        "(template argument, table cell, list, heading, link, inside nowiki, around nowiki delimiters) under expand and parse. "
        "non-trivial = distinct (content, context) whose content contains >=1 of the 15 map characters / distinct input with >=1 "
        "closed comment deleted by the reference scan")
ASSUMPTIONS = [
    "empty content: <nowiki></nowiki> may come out as '' or as '<nowiki/>' (both inert); asserted as such",
    "content with placeholder-range characters (U+10203D..U+10FFF0) is a tagged class with coarse signatures "
    "(documented assumption of the package that these characters do not occur)",
    "template-body context: content excludes comment and noinclude/includeonly/onlyinclude delimiters (the store "
    "applies template-body extraction before nowiki is looked at; the statement's quantifier does not list template bodies)",
    "comment relation asserted only when gluing the kept parts creates/destroys no comment/nowiki delimiter "
    "(otherwise 'the input with each comment deleted' is a different document by construction)",
    "parse sentinel relation: the sentinel has the same leading/trailing blank class as c is NOT assumed",
    "'the closing tag' = </nowiki + ASCII blanks + > in either ASCII case; spellings that only Unicode case folding / Unicode \\s "
    "would accept are ordinary content",
    "adjacency relation: a bare URL is not used as prefix (it is not a closed construct: where it ends is decided by what follows)",
    "per-case CPU budget 10 s (ITIMER_VIRTUAL; 2 s for the tagged placeholder class) stands for 'returns'",
    "Lua stand-in pages installed so that {{#invoke:}} tokens in comment soups fail/behave the same on both sides",
]
WALL = {"quick": 900, "thorough": 5400}

SENT = "QZX"
# one mechanism, seen by both parts: the tag regexes accept spellings that only Unicode case folding / Unicode \\s match
NONASCII_SIG = "nowiki/tag-spelling-with-non-ascii-letter-or-blank-accepted-as-nowiki-tag"
PMODES = [{}, {"pre_expand": True}, {"expand_all": True}]
OPENERS = ["<nowiki>", "<nowiki>", "<nowiki>", "<NOWIKI>", "<nowiki >", "<NoWiki\n>", "<nowiki\t >"]
CLOSERS = ["</nowiki>", "</nowiki>", "</nowiki>", "</NOWIKI>", "</nowiki >", "</nowiki\n>", "</NoWiki  >"]

# name, source format, expected expand() format (%s = Q(c)), expand kwargs, template names the wrapper itself calls
XCTX = [
    ("top", "%s", "%s", {}, ()),
    ("mid", "a%sb", "a%sb", {}, ()),
    ("twice", "%s-%s", "%s-%s", {}, ()),
    ("targ", "{{e|%s}}", "[%s]", {}, ("e",)),
    ("targ-mid", "{{e|a%sb}}", "[a%sb]", {}, ("e",)),
    ("targ2", "{{e2|x|%s}}", "(x/%s)", {}, ("e2",)),
    ("named", "{{en|k=%s}}", "/%s/", {}, ("en",)),
    ("named-sp", "{{en|k= %s }}", "/%s/", {}, ("en",)),
    ("unexp", "{{zz|%s|k=%s}}", "{{zz|%s|k=%s}}", {"pre_expand": True}, ()),
    ("noexp", "{{e|%s}}", "{{e|%s}}", {"pre_expand": True, "templates_to_not_expand": {"e"}}, ()),
    ("pf-if", "{{#if:1|%s|n}}", "%s", {}, ()),
    ("pf-test", "{{#if:%s|y|n}}", "y", {}, ()),
    ("pf-switch", "{{#switch:a|a=%s|b}}", "%s", {}, ()),
    ("defval", "{{ed}}", None, {}, ("ed",)),        # body of ed is generated per case
    ("body", None, None, {}, ()),                    # special
    ("body-arg", None, None, {}, ()),                # special
    ("link-text", "[[x|%s]]", "[[x|%s]]", {}, ()),
    ("link-target", "[[%s]]", "[[%s]]", {}, ()),
    ("ext-text", "[http://x.example %s]", "[http://x.example %s]", {}, ()),
    ("item", "* %s\n", "* %s\n", {}, ()),
    ("item-nested", "# a\n#: b%s\n# c", "# a\n#: b%s\n# c", {}, ()),
    ("defn", "; t%s : d%s\n", "; t%s : d%s\n", {}, ()),
    ("cell", "{|\n| %s\n|}", "{|\n| %s\n|}", {}, ()),
    ("cell-multi", "{|\n! h%s !! i\n|-\n| a || b%s\n|}", "{|\n! h%s !! i\n|-\n| a || b%s\n|}", {}, ()),
    ("head", "== %s ==\n", "== %s ==\n", {}, ()),
    ("html", "<div class=\"k\">%s</div><b>%s</b>", "<div class=\"k\">%s</div><b>%s</b>", {}, ()),
    ("nested", "{{e|[[x|%s]] {{en|k=%s}}}}", "[[[x|%s]] /%s/]", {}, ("e", "en")),
    ("targ-link-cell", "{|\n| {{e|[[y|%s]]}}\n|}", "{|\n| [[[y|%s]]]\n|}", {}, ("e",)),
]
XBYNAME = {x[0]: x for x in XCTX}
# parse embedding contexts: the nowiki follows non-blank text of the embedding node
PCTX = [
    ("mid", "a%sb"), ("targ", "{{e|a%s}}"), ("named", "{{en|k=a%sb}}"), ("link-text", "[[x|t%s]]"),
    ("link-target", "[[t%s]]"), ("ext-text", "[http://x.example t%s]"), ("item", "* i%s\n* j"),
    ("item-nested", "# a\n#: b%s\n# c"), ("defn", "; t%s : d%s\n"), ("cell", "{|\n| c%s\n|}"),
    ("cell-multi", "{|\n! h%s !! i\n|-\n| a || b%s\n|}"), ("head", "== h%s ==\nx"), ("html", "<div class=\"k\">d%s</div>"),
    ("bold", "'''b%s''' ''i%s''"), ("nested", "{|\n| {{e|[[y|t%s]]}}\n|}"),
]
# the nowiki directly after the URL of an external link (blank-only content must stay content, not become the separator)
PCTX += [("ext-url-adjacent", "[http://x.example%s foo]"), ("ext-url-adjacent-end", "[http://x.example/p%s]")]
PBYNAME = dict(PCTX)
# adjacency contexts (check "parse-adj"): a closed inline construct P directly followed by the nowiki (+ optional text S).
# Oracle (concatenation relation, both sides real runs): children(parse(P + <nowiki>c</nowiki> + S)) ==
# children(parse(P)) + one text node Q(c)+S (merged with a preceding text node): the neighbour does not take c.
ADJ = [
    ("after-link", "[[a]]", "after-link"), ("after-link-text", "[[a|b]]", "after-link"), ("after-link-ns", "[[w:a#f|]]", "after-link"),
    ("after-extlink", "[http://x.example y]", "after-extlink"),
    # (a bare URL is not a closed construct -- where it ends is decided by the characters after it -- so it is no prefix here)
    ("after-template", "{{e|1}}", "after-template"), ("after-arg", "{{{1}}}", "after-arg"), ("after-bold", "'''b'''", "after-bold"),
    ("after-html", "<b>x</b>", "after-html"), ("after-br", "<br>", "after-html"), ("after-text", "w", "after-text"),
    ("after-magic-word", "__NOTOC__", "after-magic-word"), ("after-nowiki-slash", "[[a]]<nowiki/>", "after-nowiki-slash"),
]
ADJBYNAME = {a[0]: a for a in ADJ}
ADJ_SUFFIX = ["", "z"]
LIB_EXTRA = {"e": "[{{{1}}}]", "e2": "({{{1}}}/{{{2}}})", "en": "/{{{k}}}/", "mark": "EXPANDED"}
BODY_EXCL = re.compile(r"(?i)<!--|-->|</?(noinclude|includeonly|onlyinclude)\b[^>]*>")


def floors(tier):
    return {
        "oracle.nowiki.expand-exact": 8000, "oracle.nowiki.decode": 8000, "oracle.nowiki.recorder": 8000,
        "oracle.nowiki.parse-top": 1500, "oracle.nowiki.parse-ctx": 1500,
        "oracle.comment.expand": 3000, "oracle.comment.parse": 3000,
        "sets.mapchars": 15, "sets.xctx": len(XCTX), "sets.pctx": len(PCTX), "sets.comment-features": 10,
        "oracle.nowiki.history": 3000, "counters.history.parse-expand-first.level60": 300,
        "counters.history.parse-expand-first.level90": 300, "counters.history.level.90": 8, "counters.history.table-at-least-85-percent-full": 8,
        "counters.history.first-check-after-fill.parse-expand-first.table-over-half": 8,
        "counters.history.first-check-after-fill.expand.table-over-half": 4, "counters.history.style.piecewise": 4,
        "sets.adjctx": len(ADJ), "oracle.nowiki.parse-adj": 5000, "counters.class.near-closer": 300, "counters.class.blank": 100,
        "counters.exhaustive.single": 15, "counters.exhaustive.pair": 225,
        "counters.comment.removed": 3000, "counters.class.placeholder": 1,
        "anchors.core.preprocess_text": 10000, "anchors.common.nowiki_quote": 5000,
        "anchors.core._finalize_expand": 5000, "anchors.parser.magic_fn": 1500,
        "anchors.core.expand_args": 500, "anchors.core._save_value": 5000,
        "counters.parse.kindN": 1500,
        "counters.strict-content.parse.mode1": 1500, "counters.strict-content.parse.mode2": 1500,
        "counters.class.strict": 500,
        "nontrivial": 5000,
    }


def shards(tier, seed):
    n = 16
    per = {"quick": 1200, "thorough": 32000}[tier]
    if os.environ.get("VERIF_C15_PER"):  # development aid: reduced count with the same code path
        per = int(os.environ["VERIF_C15_PER"])
    return [{"seed": seed * 1000 + i, "n": per, "idx": i, "nsh": n, "tier": tier} for i in range(n)]


# ---------------------------------------------------------------- generators

def gen_content(rng, soup):
    """-> (c, cls) ; cls in plain / placeholder"""
    ph = rng.random() < 0.04
    r = rng.random()
    if r < 0.12:
        # strict class: map characters and letters/digits only -- nothing the second parse of the
        # pre_expand / expand_all modes could legitimately re-read; asserted in those modes
        toks = list(R.MAP) + ["{{", "}}", "[[", "]]", "{{{", "}}}", "||", "''", "'" * 3, "==", "__", "<b>", "{{e|A}}", "[[x]]",
                              "{{mark}}", "{{{1}}}", "{{tk}}", "<div>", "[x]", "a", "B", "x1", "Zq", "mark", "e", "1"]
        c = "".join(rng.choice(toks) for _ in range(rng.randint(1, 10)))
        c = R.CLOSE_RE.sub("", c)
        return c, "strict"
    if r < 0.16:
        # near-miss spellings of the closing tag (not the tag: see vf.ref.c15_ref.CLOSE_RE) followed by markup
        pre = soup.soup(rng, rng.randint(1, 4), placeholders=False, exclude=("\U0010203d",))[0] if rng.random() < 0.6 else ""
        post = rng.choice(["{{mark}}", "[[x]]", "{{{1}}}", "{{e|A}}", "x", "", "''i''", "{{#if:1|y}}"])
        c = pre + rng.choice(R.NEAR_CLOSERS) + post
        if rng.random() < 0.3:
            c += rng.choice(R.NEAR_CLOSERS) + "t"
        c = R.CLOSE_RE.sub("", c)
        if R.ENTITY_RE.search(c):
            c = c.replace("&", "")
        return c, "near-closer"
    if r < 0.185:
        return rng.choice([" ", "  ", "\t", " \t ", "\n", " \n", "\n ", "\n\n", "\r\n", "   "]), "blank"
    if r < 0.24:
        # separators and line-start markers, densely
        toks = ["|", "||", "}}", "]]", "{{", "[[", "\n*", "\n#", "\n:", "\n;", "\n{|", "\n|-", "\n|}", "\n|", "\n!", "=", "\n==",
                "{{{1}}}", "{{mark}}", "{{e|x}}", "{{ta|", "<!--", "-->", "<nowiki>", "<nowiki/>", "__NOTOC__", "'''", "''",
                "\n ", " ", "a", "[http://x y]", "{{#if:1|y}}", "{{PAGENAME}}", "~~~~", "<pre>", "</pre>", "<ref>", "\n----", "_", "\"", "!"]
        c = "".join(rng.choice(toks) for _ in range(rng.randint(1, 8)))
    else:
        c, _ = soup.soup(rng, rng.choice((3, 6, 14)), placeholders=False, exclude=("\U0010203d",))
    if ph:
        k = rng.randrange(len(c) + 1)
        c = c[:k] + rng.choice(PLACEHOLDERS) + c[k:]
    c = R.CLOSE_RE.sub("", c)
    while R.CLOSE_RE.search(c):
        c = R.CLOSE_RE.sub("", c)
    if R.ENTITY_RE.search(c):
        c = c.replace("&", "")
    return c, ("placeholder" if ph else "plain")


PLACEHOLDERS = [chr(0x10203D), chr(0x10203E), chr(0x10203F), chr(0x102040), chr(0x102041), chr(0x102045), chr(0x10FFF0)]


def clean_comment_body(s):
    while "-->" in s:
        s = s.replace("-->", "- ->")
    return s


def gen_comment_case(rng, soup):
    """-> (text, gen-tag)"""
    ex = ("\U0010203d",)

    def piece(k=8):
        return soup.soup(rng, rng.randint(1, k), exclude=ex)[0] if rng.random() < 0.85 else ""

    def comment():
        r = rng.random()
        if r < 0.08:
            b = ""
        elif r < 0.16:
            b = rng.choice([" c ", "\n", " <nowiki> ", " </nowiki> ", "<nowiki>x</nowiki>", "{{mark}}", "|", "}}", "\n* x\n", "-", "--", ">",
                            "<!--", "<nowiki/>", " == h ==\n", "{{", "[[", "\n|-\n"])
        else:
            b = soup.soup(rng, rng.randint(1, 6), exclude=ex)[0]
            if rng.random() < 0.1:
                k = rng.randrange(len(b) + 1)
                b = b[:k] + rng.choice(["<nowiki>", "</nowiki>", "<NOWIKI >", "<nowiki/>"]) + b[k:]
        return "<!--" + clean_comment_body(b) + "-->"

    r = rng.random()
    if r < 0.6:
        out = [piece()]
        for _ in range(rng.randint(1, 4)):
            out.append(rng.choice(["", "", "\n", "\n", "\n\n", " \n", " "]))
            out.append(comment())
            if rng.random() < 0.25:
                out.append(rng.choice(["", "\n"]) + comment())
            out.append(rng.choice(["", "", "\n", " ", "\n*", "\n|"]))
            out.append(piece())
        return "".join(out), "soup"
    C = comment
    forms = [
        lambda: "{{e|a%sb}}" % C(), lambda: "{{e|%s\n%s|z}}" % (piece(3), C()), lambda: "{{en|k=%sv%s}}" % (C(), C()),
        lambda: "{{en|%sk=v}}" % C(), lambda: "{%s{e|x}}" % C(), lambda: "{{e%s|x}}" % C(), lambda: "{{{1|%s}}}%s" % (C(), piece(3)),
        lambda: "{|\n| a%s\n%s\n| b\n|}" % (C(), C()), lambda: "{|%s\n|-%s\n| a ||%s b\n%s|}" % (C(), C(), C(), C()),
        lambda: "* a%s\n%s\n* b\n%s* c" % (C(), C(), C()), lambda: "== h%s ==%s\nx" % (C(), C()), lambda: "==%s h ==\n%s\ny" % (C(), C()),
        lambda: "[[x|a%sb]] [%shttp://x y]" % (C(), C()), lambda: "<nowiki>a%sb</nowiki>%s" % (C(), C()),
        lambda: "%s<nowiki>%s</nowiki>%s" % (C(), piece(3), C()), lambda: "<nowiki>%s\n%s" % (piece(3), C()),
        lambda: "%s%s</nowiki>%s" % (piece(3), C(), piece(3)), lambda: "<now%siki>x</nowiki>" % C(), lambda: "'''a%s\n%sb'''" % (C(), C()),
        lambda: "<div>%s\n%s</div>\n%s" % (piece(3), C(), C()), lambda: "%s" % C(), lambda: "\n%s" % C(), lambda: "x\n%s\n%s\ny" % (C(), C()),
        lambda: "{{#if:%s|y|n}}{{#if:1|%sy}}" % (C(), C()), lambda: " a\n%s b" % C(), lambda: "<pre>%s\n%s</pre>" % (piece(3), C()),
    ]
    return rng.choice(forms)(), "struct"


# ---------------------------------------------------------------- monitor

class Monitor:
    def __init__(self, obs):
        from vf.core.wtp import fresh, tmpl
        from vf.gen import soup
        import wikitextprocessor.core as core
        import wikitextprocessor.common as common
        import wikitextprocessor.parser as P
        self.obs = obs
        self.soup = soup
        lib = dict(soup.LIBRARY)
        lib.update(LIB_EXTRA)
        self.cm = fresh(lua=True, pages=[tmpl(k, v) for k, v in lib.items()])
        self.ctx = self.cm.__enter__()
        W = core.Wtp
        anchors.watch({
            "core.preprocess_text": W.preprocess_text, "common.nowiki_quote": common.nowiki_quote,
            "core._finalize_expand": W._finalize_expand, "parser.magic_fn": P.magic_fn,
            "core._save_value": W._save_value, "core._encode": W._encode,
            "core.expand_args": (W.expand, "expand_args"), "core.expand_recurse": (W.expand, "expand_recurse"),
            "core._template_to_body": W._template_to_body, "parser.text_fn": P.text_fn,
        })
        self.nbody = 0
        self.calls = []
        self.pbase = {}
        self.xbase = {}
        self.adjbase = {}
        self.triage_cpu = 0.0
        self.triage_cap = 90.0
        self.keep_page = False   # True: cases continue on the current page (no start_page): part H
        self.kindN = 0
        self._orig_magic = None

    def close(self):
        self.cm.__exit__(None, None, None)

    # ----- running the real code
    def _rec(self, name, args):
        self.calls.append(name)
        return None

    def x(self, text, **kw):
        """expand under guard -> ('ok', str) | ('raises', sig) | ('no-return', '')"""
        ctx = self.ctx
        if not self.keep_page:
            ctx.start_page("Pg")
        self.calls = []
        try:
            with cpu_guard(2 if R.PLACEHOLDER_RE.search(text) else 10):
                return "ok", ctx.expand(text, template_fn=self._rec, **kw)
        except CpuBudget:
            return "no-return", ""
        except RecursionError as e:
            return "raises", exc_sig(e)
        except Exception as e:
            return "raises", exc_sig(e)

    def p(self, text, mode):
        ctx = self.ctx
        if not self.keep_page:
            ctx.start_page("Pg")
        self.calls = []
        try:
            with cpu_guard(2 if R.PLACEHOLDER_RE.search(text) else 10):
                root = ctx.parse(text, template_fn=self._rec, **PMODES[mode])
            return "ok", root
        except CpuBudget:
            return "no-return", ""
        except RecursionError as e:
            return "raises", exc_sig(e)
        except Exception as e:
            return "raises", exc_sig(e)

    # ----- part N
    def nw(self, c, oc):
        return OPENERS[oc[0]] + c + CLOSERS[oc[1]]

    def expand_case(self, c, name, oc):
        """-> None or (rule, msg).  Evaluates the three expand oracles for content c in context name."""
        obs = self.obs
        _, fmt, efmt, kw, wcalls = XBYNAME[name]
        nw = self.nw(c, oc)
        if name in ("body", "body-arg", "defval"):
            self.nbody += 1
            t = "b%d" % self.nbody
            if name == "body":
                body, src, efmt = "B[%s]{{{1}}}" % nw, "{{%s|ARG}}" % t, "B[%s]ARG"
            elif name == "body-arg":
                body, src, efmt = "{{e|%s}}{{{k|%s}}}" % (nw, nw), "{{%s|ARG}}" % t, "[%s]%s"
                wcalls = ("e",)
            else:
                body, src, efmt = "{{{9|%s}}}/{{{1|%s}}}" % (nw, nw), "{{%s|ARG}}" % t, "%s/ARG"
            self.ctx.add_page("Template:" + t, 10, body, model="wikitext")
            wcalls = tuple(wcalls) + (t,)
        else:
            src = fmt.replace("%s", nw)
        st, got = self.x(src, **kw)
        if st != "ok":
            return (st if st == "no-return" else "raises:" + got), "%s %s on expand(%r)" % (st, got, src[:200])
        qc = R.Q(c)
        exp = efmt.replace("%s", qc)
        obs.check("nowiki.expand-exact")
        if got != exp:
            ok = False
            if c == "":
                ok = got in (efmt.replace("%s", "<nowiki/>"), efmt.replace("%s", "<nowiki />"))
            if not ok:
                return "expand-exact", "expand(%r) = %r, expected %r" % (src[:200], got[:300], exp[:300])
        obs.check("nowiki.decode")
        if c != "" and R.unQ(got) != efmt.replace("%s", c):
            return "decode", "decoded %r != %r" % (R.unQ(got)[:300], efmt.replace("%s", c)[:300])
        obs.check("nowiki.recorder")
        extra = [n for n in self.calls if n not in wcalls]
        obs.count("recorder.calls.wrapper", len(self.calls) - len(extra))
        if extra:
            obs.count("recorder.calls.unexpected", len(extra))
            return "expanded-inside", "template_fn saw %r for %r" % (extra[:5], src[:200])
        return None

    def parse_top_case(self, c, mode, oc):
        st, root = self.p(self.nw(c, oc), mode)
        if st != "ok":
            return (st if st == "no-return" else "raises:" + root), "%s %s on parse(%r, %r)" % (st, root, self.nw(c, oc)[:200], PMODES[mode])
        self.obs.check("nowiki.parse-top")
        if self.calls:
            return "expanded-inside", "template_fn saw %r during parse(<nowiki>%r</nowiki>, %r)" % (self.calls[:5], c[:200], PMODES[mode])
        want = [R.Q(c)] if c else []
        if root.children != want:
            return "parse-top-single-text", "parse(<nowiki>%r</nowiki>, %r).children = %r, expected %r" % (
                c[:200], PMODES[mode], [str(x)[:120] for x in root.children[:4]], want)
        return None

    def _pbase(self, name, mode):
        k = (name, mode)
        if k not in self.pbase:
            st, root = self.p(PBYNAME[name].replace("%s", "<nowiki>" + SENT + "</nowiki>"), mode)
            self.pbase[k] = canon(root) if st == "ok" else None
        return self.pbase[k]

    def parse_ctx_case(self, c, name, mode, oc):
        base = self._pbase(name, mode)
        if base is None:
            return "parse-ctx-baseline", "sentinel document does not parse in %s" % name
        st, root = self.p(PBYNAME[name].replace("%s", self.nw(c, oc)), mode)
        if st != "ok":
            return (st if st == "no-return" else "raises:" + root), "%s %s on parse(%r, %r)" % (
                st, root, PBYNAME[name].replace("%s", self.nw(c, oc))[:200], PMODES[mode])
        self.obs.check("nowiki.parse-ctx")
        extra = [n for n in self.calls if n not in ("e", "en")]
        if extra:
            return "expanded-inside", "template_fn saw %r during parse in ctx %s mode %r content %r" % (extra[:5], name, PMODES[mode], c[:120])
        got = canon(root)
        want = subst(base, SENT, R.Q(c))
        if got != want:
            return "parse-ctx-tree-depends-on-content", "ctx %s mode %r content %r: tree %r, sentinel tree %r" % (
                name, PMODES[mode], c[:120], str(got)[:300], str(want)[:300])
        return None

    def _adjbase(self, name, mode):
        k = (name, mode)
        if k not in self.adjbase:
            st, root = self.p(ADJBYNAME[name][1], mode)
            self.adjbase[k] = canon(root.children) if st == "ok" else None
        return self.adjbase[k]

    def parse_adj_case(self, c, name, mode, oc, suffix):
        base = self._adjbase(name, mode)
        if base is None:
            return "parse-adj-baseline", "prefix %r does not parse" % ADJBYNAME[name][1]
        src = ADJBYNAME[name][1] + self.nw(c, oc) + suffix
        st, root = self.p(src, mode)
        if st != "ok":
            return (st if st == "no-return" else "raises:" + root), "%s %s on parse(%r, %r)" % (st, root, src[:200], PMODES[mode])
        self.obs.check("nowiki.parse-adj")
        extra = [n for n in self.calls if n not in ("e", "en")]
        if extra:
            return "expanded-inside", "template_fn saw %r during parse(%r, %r)" % (extra[:5], src[:200], PMODES[mode])
        txt = R.Q(c) + suffix
        want = list(base)
        if txt:
            if want and isinstance(want[-1], str):
                want[-1] = want[-1] + txt
            else:
                want.append(txt)
        got = canon(root.children)
        if got != tuple(want):
            return "parse-adjacent-node-takes-content", "parse(%r, %r).children = %r, expected %r (= children of %r + one text node)" % (
                src[:200], PMODES[mode], str(got)[:300], str(tuple(want))[:300], ADJBYNAME[name][1])
        return None

    def nowiki_eval(self, case):
        k = case["check"]
        oc = tuple(case.get("oc", (0, 0)))
        if k == "parse-adj":
            return self.parse_adj_case(case["c"], case["ctx"], case["mode"], oc, case.get("suffix", ""))
        if k == "expand":
            return self.expand_case(case["c"], case["ctx"], oc)
        if k == "parse-top":
            return self.parse_top_case(case["c"], case["mode"], oc)
        return self.parse_ctx_case(case["c"], case["ctx"], case["mode"], oc)

    def fresh_eval(self, case):
        """The same check on a brand-new context (no history): distinguishes a failure of the case itself from a
        failure that depends on what the context processed before (stale memo / leaked cookie state)."""
        from vf.core.wtp import fresh, tmpl
        lib = dict(self.soup.LIBRARY)
        lib.update(LIB_EXTRA)
        saved_ctx, saved_obs = self.ctx, self.obs
        self.obs = Obs()
        try:
            with fresh(lua=False, pages=[tmpl(k, v) for k, v in lib.items()]) as c2:
                self.ctx = c2
                return self.nowiki_eval(case)
        finally:
            self.ctx, self.obs = saved_ctx, saved_obs

    # ----- the "parse after an expand pass" class, made precise
    def _pfmt(self, case):
        if case["check"] == "parse-adj":
            return ADJBYNAME[case["ctx"]][1] + "%s" + case.get("suffix", "")
        return "%s" if case["check"] == "parse-top" else PBYNAME[case["ctx"]]

    def _xbase(self, fmt, mode):
        """expand() output of the context with the sentinel content (what the inner expand pass of parse() must
        produce, up to the content), cached."""
        k = (fmt, mode)
        if k not in self.xbase:
            st, out = self.x(fmt.replace("%s", "<nowiki>" + SENT + "</nowiki>"), **({"pre_expand": True} if mode == 1 else {}))
            self.xbase[k] = out if st == "ok" and SENT in out else None
        return self.xbase[k]

    def explained_by_reparse(self, case):
        """Explicit test of the documented mechanism of the known finding: the tree that parse(T, pre_expand /
        expand_all) returned IS the plain parse of the correct expand output (context with Q(c)): the content was
        entity-quoted correctly and only the second parse re-read it.  Content lost, cookie characters, foreign
        nodes, expansion inside the nowiki all fail this test."""
        c, mode = case["c"], case["mode"]
        fmt = self._pfmt(case)
        xb = self._xbase(fmt, mode)
        if xb is None or c == "":
            return False
        oc = tuple(case.get("oc", (0, 0)))
        a = self.p(fmt.replace("%s", self.nw(c, oc)), mode)
        if a[0] != "ok" or self.calls and [n for n in self.calls if n not in ("e", "en")]:
            return False
        b = self.p(xb.replace(SENT, R.Q(c)), 0)
        return b[0] == "ok" and canon(a[1]) == canon(b[1])

    @staticmethod
    def outside(ch):
        """character outside the 15-character map that is not a letter/digit (';', '-', blank, newline, ...)"""
        return ch not in R.MAP and not ch.isalnum()

    def restricted(self, c):
        return "".join(ch for ch in c if not self.outside(ch))

    def known_reparse_class(self, case):
        """All clauses of the known-finding class (the caller has established: parse check, mode != 0, fails)."""
        c = case["c"]
        if not any(self.outside(ch) for ch in c):
            return False
        if self.nowiki_eval(dict(case, mode=0)) is not None:
            return False
        if not self.explained_by_reparse(case):
            return False
        # the same content restricted to map characters + letters satisfies the property in the same mode
        r = self.restricted(c)
        return r == "" or self.nowiki_eval(dict(case, c=r)) is None

    def outcome_tags(self, case):
        """What is wrong with the returned tree (for failures the re-parse mechanism does not explain)."""
        c, mode = case["c"], case["mode"]
        fmt = self._pfmt(case)
        oc = tuple(case.get("oc", (0, 0)))
        a = self.p(fmt.replace("%s", self.nw(c, oc)), mode)
        if a[0] != "ok":
            return [a[0] + (":" + a[1] if a[1] else "")]
        tags = []
        if [n for n in self.calls if n not in ("e", "en")]:
            tags.append("expanded-inside")
        b = self.p(fmt.replace("%s", "<nowiki>" + SENT + "</nowiki>"), 0)
        strs, kinds = [], set()
        walk_canon(canon(a[1]), strs, kinds)
        bstrs, bkinds = [], set()
        if b[0] == "ok":
            walk_canon(canon(b[1]), bstrs, bkinds)
        joined = "\x00".join(strs)
        if R.PLACEHOLDER_RE.search(joined):
            tags.append("cookie-char-in-tree")
        q = R.Q(c)
        if q and joined.count(q) < "\x00".join(bstrs).replace(SENT, q).count(q):
            tags.append("content-lost")
        foreign = sorted(kinds - bkinds)
        if foreign:
            tags.append("foreign-node:" + "+".join(foreign))
        return tags or ["tree-differs"]

    def _sig_after_expand(self, case, prob):
        """case: parse check, mode != 0, fails, and passes in mode 0."""
        KNOWN = "nowiki/parse-after-expand-pass/non-map-characters-reinterpreted"
        c = case["c"]

        def fails(cc, cs=case):
            if R.CLOSE_RE.search(cc) or R.ENTITY_RE.search(cc) or cc == "":
                return False
            return self.nowiki_eval(dict(cs, c=cc)) is not None and self.nowiki_eval(dict(cs, c=cc, mode=0)) is None

        if self.known_reparse_class(case):
            mc = "".join(R.ddmin(list(c), lambda ch: fails("".join(ch)) and self.known_reparse_class(dict(case, c="".join(ch))), 250)) \
                if len(c) > 1 else c
            return KNOWN, dict(case, c=mc)
        if self.explained_by_reparse(case):
            # re-parse explains the tree, but the strict clause fails: content of map characters + letters only
            r = self.restricted(c) if any(self.outside(ch) for ch in c) else c
            mc = "".join(R.ddmin(list(r), lambda ch: fails("".join(ch)), 400)) if len(r) > 1 else r
            if case["check"] == "parse-adj":
                return "nowiki/parse-after-expand-pass/content-joins-preceding-construct/ctx=%s" % ADJBYNAME[case["ctx"]][2], dict(case, c=mc)
            return "nowiki/parse-after-expand-pass/map-chars-and-letters-reinterpreted/c=%s" % R.shape(mc), dict(case, c=mc)
        # not explained by the documented mechanism: own signatures
        mc = "".join(R.ddmin(list(c), lambda ch: fails("".join(ch)) and not self.explained_by_reparse(dict(case, c="".join(ch))), 400)) \
            if len(c) > 1 else c
        mcase = dict(case, c=mc, oc=(0, 0))
        if not fails(mc, mcase):
            mcase = dict(case, c=mc)
        ctxtag = case.get("ctx", "top")
        if case["check"] == "parse-adj":
            ctxtag = ADJBYNAME[ctxtag][2]
        if case["check"] == "parse-ctx":
            top = dict(mcase, check="parse-top")
            top.pop("ctx", None)
            if fails(mc, top) and not self.explained_by_reparse(top):
                ctxtag, mcase = "top", top
        cshape = R.shape(mc)
        if len(mc) == 1:
            probe = dict(mcase, c="x")
            if fails("x", probe) and not self.explained_by_reparse(probe):
                cshape, mcase = "any-char", probe
        tags = self.outcome_tags(mcase)
        return "nowiki/parse-after-expand-pass/unexplained:%s/ctx=%s/c=%s" % (",".join(tags), ctxtag, cshape), mcase

    def nowiki_sig(self, case, prob):
        """Delta-minimise the content under 'the same rule fails', then build the mechanism signature."""
        rule = prob[0]
        c = case["c"]
        if R.PLACEHOLDER_RE.search(c):
            cat = "raises" if rule.startswith("raises") else ("no-return" if rule == "no-return" else "nowiki-mismatch")
            return "placeholder-char-in-input/" + cat, case
        if rule == "no-return":
            return "nowiki/no-return/%s" % case["check"], case
        saved = self.obs
        self.obs = Obs()  # minimisation runs are not evidence

        def failing(chars, cs=case):
            cc = "".join(chars)
            if R.CLOSE_RE.search(cc) or R.ENTITY_RE.search(cc):
                return False
            if cs["check"] == "expand" and cs["ctx"] in ("body", "body-arg", "defval") and BODY_EXCL.search(cc):
                return False
            q = self.nowiki_eval(dict(cs, c=cc))
            return q is not None and q[0] == rule

        try:
            if case["check"] != "expand" and case["mode"] != 0 and c != "" and self.nowiki_eval(dict(case, mode=0)) is None:
                # fails only when parse() runs an expand pass first (pre_expand / expand_all)
                return self._sig_after_expand(case, prob)
            if case["check"] != "expand" and case["mode"] != 0:
                q0 = self.nowiki_eval(dict(case, mode=0))
                if q0 is not None and q0[0] == rule:
                    case = dict(case, mode=0)   # not specific to the expand-first modes: minimise and report in plain mode
            mc = "".join(R.ddmin(list(c), lambda ch: failing(ch, case))) if len(c) > 1 else c
            mcase = dict(case, c=mc, oc=(0, 0))
            if not failing(list(mc), mcase):
                mcase = dict(case, c=mc)
            ctxtag = case.get("ctx", "top")
            if case["check"] == "expand" and ctxtag in ("body", "body-arg", "defval"):
                ctxtag = "template-body"
            if case["check"] == "parse-adj":
                ctxtag = ADJBYNAME[ctxtag][2]
            if case["check"] == "expand" and ctxtag != "top":
                q = self.nowiki_eval(dict(mcase, ctx="top"))
                if q is not None and q[0] == rule:
                    ctxtag = "top"
                    mcase = dict(mcase, ctx="top")
            elif case["check"] == "parse-ctx":
                q = self.nowiki_eval(dict(mcase, check="parse-top"))
                if q is not None:
                    ctxtag = "top"
            octag = "" if tuple(mcase.get("oc", (0, 0))) == (0, 0) else "/tag-spelling"
            modetag = ""
            if case["check"] != "expand":
                # is the failure specific to a parse mode?
                q0 = self.nowiki_eval(dict(mcase, mode=0))
                if q0 is None and mc != "":
                    # minimisation slipped into the expand-pass-only class
                    return self._sig_after_expand(mcase, prob)
            cshape = "blank" if mc.isspace() else R.shape(mc)
            if len(mc) == 1 and mc in R.MAP:
                # canonical form: which single map characters fail the same way
                fails = [k for k in R.MAP if failing([k], mcase)]
                if len(fails) == len(R.MAP):
                    cshape = "any-map-char"
                elif 1 < len(fails) <= 4:
                    cshape = ",".join(fails)
                elif len(fails) > 4:
                    cshape = "%d-map-chars" % len(fails)
        finally:
            self.obs = saved
        if "nonascii-spelling" in cshape:
            return NONASCII_SIG, mcase
        sig = "nowiki/%s/ctx=%s%s%s/c=%s" % (rule, ctxtag, modetag, octag, cshape)
        return sig, mcase

    def cheap_class(self, case, prob):
        """Recognition (a few extra runs, every clause of the class tested explicitly) of the two frequent known
        classes, used only when the minimisation budget is spent; anything not recognised is minimised regardless
        of the budget (nothing is dropped unclassified)."""
        c = case["c"]
        if R.PLACEHOLDER_RE.search(c):
            return "placeholder-class"
        if case["check"] != "expand" and case["mode"] != 0 and c != "" and prob[0] != "no-return" \
                and not prob[0].startswith("raises"):
            saved = self.obs
            self.obs = Obs()
            try:
                if self.known_reparse_class(case):
                    return "parse-after-expand-pass"
            finally:
                self.obs = saved
        return None

    # ----- part K
    def comment_eval(self, text, f, mode):
        """-> ('skip', why) | ('ok', None) | ('fail', msg)"""
        stripped, n, safe = R.strip_comments(text)
        if n == 0:
            return "skip", "no-comment"
        if not safe:
            return "skip", "junction"
        if f == "expand":
            a = self.x(text, **({"pre_expand": True} if mode == 1 else {}))
            b = self.x(stripped, **({"pre_expand": True} if mode == 1 else {}))
            self.obs.check("comment.expand")
        else:
            a = self.p(text, mode)
            b = self.p(stripped, mode)
            a = (a[0], canon(a[1]) if a[0] == "ok" else a[1])
            b = (b[0], canon(b[1]) if b[0] == "ok" else b[1])
            self.obs.check("comment.parse")
        if a == b:
            return "ok", None
        if a[0] == "no-return" or b[0] == "no-return":
            # CPU budget on one side only is load dependent; not a verdict
            return "skip", "budget"
        return "fail", "%s(%r) = %r but without the comments (%r) = %r" % (f, text[:200], str(a)[:300], stripped[:200], str(b)[:300])

    def comment_sig(self, case):
        text, f, mode = case["text"], case["f"], case["mode"]
        if R.PLACEHOLDER_RE.search(text):
            return "placeholder-char-in-input/comment-relation", case
        saved = self.obs
        self.obs = Obs()
        try:
            def failing(chars):
                return self.comment_eval("".join(chars), f, mode)[0] == "fail"
            # token level first (cheap), then characters
            toks = [t for t in re.split(r"((?i:</?nowiki\s*/?>)|<!--|-->|\n|\{\{|\}\}|\[\[|\]\])", text) if t]
            toks = R.ddmin(toks, failing, 600)
            m = "".join(R.ddmin(list("".join(toks)), failing, 2500))
            ftag = ""
            if f == "parse":
                if self.comment_eval(m, "expand", 0)[0] != "fail":
                    ftag = "/parse-only"
                    if mode and self.comment_eval(m, "parse", 0)[0] != "fail":
                        ftag += "/mode=" + ("pre_expand" if mode == 1 else "expand_all")
                else:
                    f = "expand"
        finally:
            self.obs = saved
        if "nonascii-spelling" in R.shape(m, 40):
            return NONASCII_SIG, dict(case, text=m, f=f)
        return "comment-relation%s/min=%s" % (ftag, R.shape(m, 18)), dict(case, text=m, f=f)


KIND_NAMES = {"ROOT", "LEVEL1", "LEVEL2", "LEVEL3", "LEVEL4", "LEVEL5", "LEVEL6", "ITALIC", "BOLD", "HLINE", "LIST", "LIST_ITEM",
              "PREFORMATTED", "PRE", "LINK", "TEMPLATE", "TEMPLATE_ARG", "PARSER_FN", "URL", "TABLE", "TABLE_CAPTION", "TABLE_ROW",
              "TABLE_HEADER_CELL", "TABLE_CELL", "MAGIC_WORD", "HTML"}


def walk_canon(t, strs, kinds):
    """collect every string and every node kind of a canon() tree"""
    if isinstance(t, str):
        strs.append(t)
    elif isinstance(t, tuple):
        if len(t) == 6 and isinstance(t[0], str) and t[0] in KIND_NAMES and isinstance(t[3], tuple):
            kinds.add(t[0])
            strs.append(t[1])
            for x in t[2:]:
                walk_canon(x, strs, kinds)
        else:
            for x in t:
                walk_canon(x, strs, kinds)


def subst(t, a, b):
    if isinstance(t, str):
        return t.replace(a, b)
    if isinstance(t, tuple):
        return tuple(subst(x, a, b) for x in t)
    return t


# ---------------------------------------------------------------- shard

def exhaustive_contents():
    ks = list(R.MAP)
    return [("single", k) for k in ks] + [("pair", a + b) for a in ks for b in ks]


def run_nowiki(mon, obs, rng, c, cls, budget, exh=None):
    """One content through top-level expand, parse and a sample of contexts."""
    oc = (rng.randrange(len(OPENERS)), rng.randrange(len(CLOSERS)))
    nontriv = any(ch in R.MAP for ch in c)
    for ch in c:
        if ch in R.MAP:
            obs.add("mapchars", ch)
    obs.count("class." + cls)
    if exh:
        obs.count("exhaustive." + exh)
    if oc != (0, 0):
        obs.count("tag-spelling-variant")
    if c == "":
        obs.count("content.empty")
    if "\n" in c:
        obs.count("content.multiline")
    if re.search(r"\{\{|\{\{\{", c):
        obs.count("content.has-braces")
    if "|" in c:
        obs.count("content.has-vbar")
    if "<!--" in c:
        obs.count("content.has-comment-open")
    if R.OPEN_RE.search(c):
        obs.count("content.has-nowiki-open")
    obs.maxi("content.maxlen", len(c))
    plan = [{"check": "expand", "ctx": "top"}]
    names = [x[0] for x in XCTX if x[0] != "top"]
    if exh == "single":
        chosen = names
    else:
        chosen = rng.sample(names, 6 if exh is None else 3)
    plan += [{"check": "expand", "ctx": n} for n in chosen]
    plan.append({"check": "parse-top", "mode": rng.randrange(3)})
    pn = [x[0] for x in PCTX]
    for n in (pn if exh == "single" else rng.sample(pn, 2)):
        plan.append({"check": "parse-ctx", "ctx": n, "mode": rng.randrange(3)})
    for a in ([x[0] for x in ADJ] if exh == "single" or cls == "blank" else rng.sample([x[0] for x in ADJ], 2)):
        plan.append({"check": "parse-adj", "ctx": a, "mode": 0 if rng.random() < 0.6 else rng.choice((1, 2)),
                     "suffix": rng.choice(ADJ_SUFFIX)})
    if cls == "blank":
        for n in ("ext-url-adjacent", "ext-url-adjacent-end", "ext-text", "link-text"):
            plan.append({"check": "parse-ctx", "ctx": n, "mode": rng.randrange(3)})
    if cls == "strict" or exh:
        # the strict clause under the modes that run an expand pass first
        plan.append({"check": "parse-top", "mode": 1})
        plan.append({"check": "parse-top", "mode": 2})
        for n in rng.sample(pn, 3):
            plan.append({"check": "parse-ctx", "ctx": n, "mode": rng.choice((1, 2))})
    if c == "":
        # ASSUMPTIONS[0]: the empty nowiki may legitimately come back as <nowiki/>
        plan = [pl for pl in plan if pl["check"] == "expand"] + [{"check": "parse-top", "mode": 0}]
    quoting_failed = False
    for pl in plan:
        if quoting_failed and pl["check"] != "expand":
            obs.count("parse.skipped-after-expand-failure")
            continue
        cc = c
        if pl["check"] == "expand" and pl["ctx"] in ("body", "body-arg", "defval"):
            cc = BODY_EXCL.sub("", c)
            if R.CLOSE_RE.search(cc):
                continue
        case = dict(pl, c=cc, oc=list(oc))
        prob = mon.nowiki_eval(case)
        if pl["check"] == "expand":
            obs.add("xctx", pl["ctx"])
            obs.count("xctx." + pl["ctx"])
        elif pl["check"] == "parse-adj":
            obs.add("adjctx", pl["ctx"])
            obs.count("parse.kindN")
            obs.count("pmode.%d" % pl["mode"])
        elif pl["check"] == "parse-ctx":
            obs.add("pctx", pl["ctx"])
            obs.count("parse.kindN")
            obs.count("pmode.%d" % pl["mode"])
        else:
            obs.count("parse.kindN")
            obs.count("pmode.%d" % pl["mode"])
        if pl["check"] != "expand" and pl["mode"] != 0 and cc and not any(Monitor.outside(ch) for ch in cc):
            obs.count("strict-content.parse.mode%d" % pl["mode"])
            obs.check("nowiki.parse-strict-after-expand-pass")
        obs.case("N|%s|%s|%s|%r" % (pl["check"], pl.get("ctx"), pl.get("mode"), cc), nontrivial=nontriv,
                 sample={"part": "nowiki", "case": {k: (v[:200] if isinstance(v, str) else v) for k, v in case.items()}})
        if prob is None:
            continue
        obs.count("nowiki.failures")
        if mon.triage_cpu > mon.triage_cap:
            # a tree on which (nearly) everything fails: the time for classification/minimisation is spent; the
            # failure is still a violation, under a coarse signature (never reached on the pinned tree)
            obs.count("nowiki.failures.triage-budget-spent")
            obs.violation("nowiki/%s/unminimised(triage-budget-spent)" % prob[0].split(":")[0], prob[1],
                          dict(case, part="nowiki"))
            continue
        t0 = time.process_time()
        cheap = None
        if not (budget[0] > 0 or budget[1] % 20 == 0):
            cheap = mon.cheap_class(case, prob)
        if cheap is None and not R.PLACEHOLDER_RE.search(cc) and prob[0] != "no-return" and mon.fresh_eval(case) is None:
            # passes on a context without history: the mechanism is state carried over from earlier calls;
            # content minimisation is meaningless (it changes the history), one signature per failed rule
            obs.count("nowiki.failures.state-dependent")
            obs.violation("nowiki/state-dependent(passes-on-fresh-context)/" + prob[0].split(":")[0], prob[1],
                          dict(case, part="nowiki", state_dependent=True))
            mon.triage_cpu += time.process_time() - t0
            continue
        if cheap is None:
            budget[0] -= 1
            sig, mcase = mon.nowiki_sig(case, prob)
            q = prob[1] if prob[0] == "no-return" else (mon_replay_msg(mon, mcase) or prob[1])
            obs.violation(sig, q, dict(mcase, part="nowiki", oc=list(mcase.get("oc", (0, 0)))))
        else:
            # over the minimisation budget and recognised (one extra run) as a class that is already recorded
            obs.count("nowiki.failures.unminimised." + cheap)
        budget[1] += 1
        mon.triage_cpu += time.process_time() - t0
        if pl["check"] == "expand" and pl["ctx"] == "top":
            # the other contexts would fail for the same reason
            obs.count("contexts.skipped-after-top-failure")
            return


def mon_replay_msg(mon, mcase):
    saved = mon.obs
    mon.obs = Obs()
    try:
        q = mon.nowiki_eval(mcase)
    finally:
        mon.obs = saved
    return q[1] if q else None


def run_comment(mon, obs, rng, budget):
    text, tag = gen_comment_case(rng, mon.soup)
    if rng.random() < 0.03:
        k = rng.randrange(len(text) + 1)
        text = text[:k] + rng.choice(PLACEHOLDERS) + text[k:]
        obs.count("comment.class.placeholder")
    stripped, n, safe = R.strip_comments(text)
    obs.count("comment.gen." + tag)
    if n == 0:
        obs.count("comment.skip.no-closed-comment-outside-nowiki")
        return
    if not safe:
        obs.count("comment.skip.junction")
        return
    obs.count("comment.removed", n)
    obs.maxi("comment.max-per-case", n)
    for ft in R.comment_features(text):
        obs.add("comment-features", ft)
        obs.count("comment.feature." + ft)
    mode = rng.randrange(3)
    for f in ("expand", "parse"):
        m = mode if f == "parse" else rng.choice((0, 0, 1))
        st, msg = mon.comment_eval(text, f, m)
        obs.case("K|%s|%d|%s" % (f, m, text), nontrivial=True,
                 sample={"part": "comment", "f": f, "mode": m, "text": text[:300]})
        if st == "skip":
            obs.count("comment.skip." + msg)
            continue
        if st == "ok":
            continue
        # determinism guard: the same side twice
        st2, _ = mon.comment_eval(text, f, m)
        if st2 != "fail":
            obs.count("comment.nondeterministic")
            continue
        obs.count("comment.failures")
        case = {"part": "comment", "text": text, "f": f, "mode": m}
        if budget[0] > 0 or budget[1] % 20 == 0:
            budget[0] -= 1
            sig, mcase = mon.comment_sig(case)
            saved = mon.obs
            mon.obs = Obs()
            try:
                q = mon.comment_eval(mcase["text"], mcase["f"], mcase["mode"])
            finally:
                mon.obs = saved
            obs.violation(sig, q[1] if q[0] == "fail" else msg, mcase)
        else:
            obs.count("comment.failures.unminimised")
        budget[1] += 1
        break  # parse would fail for the same reason


# part H schedule: every shard runs the two well-filled levels in one piece plus one more (level, style) by shard index
HISTORY_EXTRA = [(0, "single"), (40, "piecewise"), (75, "single"), (60, "piecewise")]


def fill_page(mon, rng, percent, style):
    """One start_page(), then expansion of a long page (distinct links, external links, argument references, nowikis:
    one magic cookie each) until the context's cookie table is `percent` % full; style "single" = one expand() call,
    "piecewise" = many calls of 500-5000 constructs (an extractor walking a big page).  -> cookies in use"""
    from wikitextprocessor.common import MAX_MAGICS
    ctx = mon.ctx
    ctx.start_page("Pg")
    target = MAX_MAGICS * percent // 100
    serial = 0
    forms = ("[[h%d|t]]", "[[H%d]]", "[http://h.example/%d x]", "{{{a%d}}}", "<nowiki>n%d</nowiki>", "[[h%d#s|u]]")
    while len(ctx.cookies) < target:
        n = target - len(ctx.cookies)
        if style == "piecewise":
            n = min(n, rng.randint(500, 5000))
        text = " ".join(forms[(serial + i) % len(forms)] % (serial + i) for i in range(n))
        serial += n
        before = len(ctx.cookies)
        with cpu_guard(60):
            ctx.expand(text)
        if len(ctx.cookies) <= before:
            break   # the table does not grow (any more): go on with what is there
    return len(ctx.cookies)


def run_history(mon, obs, rng, per_level, idx):
    """Part H: the nowiki clauses on a page with a long history -- the same checks, but on a context whose cookie table is
    0 / 40 / 60 / 75 / 90 % full and WITHOUT a new start_page() between the cases (an extractor that processes a big page
    piecewise).  Which check comes first after the fill rotates with the shard index.  A failure that disappears after
    start_page() is reported as history-dependent."""
    from wikitextprocessor.common import MAX_MAGICS
    schedule = [(60, "single"), (90, "single"), HISTORY_EXTRA[idx % len(HISTORY_EXTRA)]]
    for fno, (level, style) in enumerate(schedule):
        try:
            used = fill_page(mon, rng, level, style)
        except CpuBudget:
            obs.count("history.fill.no-return")
            continue
        obs.count("history.level.%d" % level)
        obs.count("history.style." + style)
        obs.maxi("history.cookies-in-use-percent", 100 * used // MAX_MAGICS)
        if 100 * used // MAX_MAGICS >= 85:
            obs.count("history.table-at-least-85-percent-full")
        mon.keep_page = True
        first = True
        try:
            for j in range(per_level):
                c, cls = gen_content(rng, mon.soup)
                if cls == "placeholder" or c == "":
                    continue
                oc = (rng.randrange(len(OPENERS)), rng.randrange(len(CLOSERS)))
                plan = [{"check": "parse-top", "mode": 1}, {"check": "expand", "ctx": "top"}, {"check": "parse-top", "mode": 2},
                        {"check": "parse-ctx", "ctx": rng.choice([x[0] for x in PCTX]), "mode": rng.choice((1, 2))},
                        {"check": "expand", "ctx": rng.choice(("targ", "named", "link-text", "cell", "noexp", "unexp"))},
                        {"check": "parse-adj", "ctx": rng.choice([x[0] for x in ADJ]), "mode": rng.choice((1, 2)), "suffix": rng.choice(ADJ_SUFFIX)},
                        {"check": "parse-top", "mode": 0},
                        {"check": "parse-ctx", "ctx": rng.choice([x[0] for x in PCTX]), "mode": rng.randrange(3)}]
                r = (idx + fno + j) % len(plan)
                plan = plan[r:] + plan[:r]
                stop = False
                for pl in plan:
                    case = dict(pl, c=c, oc=list(oc))
                    if first:
                        first = False
                        kind = "parse-expand-first" if pl["check"] != "expand" and pl["mode"] != 0 else \
                            ("expand" if pl["check"] == "expand" else "parse-plain")
                        obs.count("history.first-check-after-fill.%s%s" % (kind, ".table-over-half" if 2 * used > MAX_MAGICS else ""))
                    prob = mon.nowiki_eval(case)
                    obs.check("nowiki.history")
                    obs.count("history.cases.level%d" % level)
                    if pl["check"] != "expand" and pl["mode"] != 0:
                        obs.count("history.parse-expand-first.level%d" % level)
                    obs.case("H|%d|%s|%s|%s|%r" % (level, pl["check"], pl.get("ctx"), pl.get("mode"), c),
                             nontrivial=any(ch in R.MAP for ch in c),
                             sample={"part": "history", "level": level, "case": {k: (v[:200] if isinstance(v, str) else v) for k, v in case.items()}})
                    if prob is None:
                        continue
                    obs.count("history.failures")
                    in_use = len(mon.ctx.cookies)
                    # the same case on a new page of the same context
                    mon.keep_page = False
                    saved = mon.obs
                    mon.obs = Obs()
                    try:
                        again = mon.nowiki_eval(case)
                    finally:
                        mon.obs = saved
                    if again is None:
                        tag = ""
                        if pl["check"] != "expand" and pl["mode"] != 0:
                            tag = "/parse-mode=expand-first"
                        obs.violation("nowiki/page-history-dependent(long page without start_page; passes on a new page)/%s%s"
                                      % (prob[0].split(":")[0], tag),
                                      "after a page history that filled the cookie table to %d %% (%s), %d cookies in use now: %s"
                                      % (100 * used // MAX_MAGICS, style, in_use, prob[1]),
                                      dict(case, part="history", level=level, style=style))
                    else:
                        # not a matter of history: the ordinary classification (same as part N)
                        sig, mcase = mon.nowiki_sig(case, again)
                        obs.violation(sig, again[1], dict(mcase, part="nowiki", oc=list(mcase.get("oc", (0, 0)))))
                    stop = True   # start_page() has dropped the history of this level
                    break
                if stop:
                    break
        finally:
            mon.keep_page = False


def run_shard(spec):
    obs = Obs()
    rng = random.Random(spec["seed"])
    mon = Monitor(obs)
    mon.triage_cap = 90.0 if spec.get("tier", "quick") == "quick" else 900.0
    n = spec["n"]
    nb = [40, 0]
    kb = [40, 0]
    # bounded-exhaustive part, split over the shards
    exh = exhaustive_contents()
    for j, (tag, c) in enumerate(exh):
        if j % spec["nsh"] == spec["idx"]:
            run_nowiki(mon, obs, rng, c, "plain", nb, exh=tag)
    if spec["idx"] == 0:
        run_nowiki(mon, obs, rng, "", "plain", nb)
    for i in range(n):
        if i % 3 < 2:
            c, cls = gen_content(rng, mon.soup)
            run_nowiki(mon, obs, rng, c, cls, nb)
        else:
            for _ in range(4):
                run_comment(mon, obs, rng, kb)
    run_history(mon, obs, rng, 14 if spec.get("tier", "quick") == "quick" else 300, spec["idx"])
    mon.close()
    obs.maxi("triage-cpu-seconds", round(mon.triage_cpu, 1))
    obs.anchors.update(anchors.snapshot())
    return obs


def replay(case):
    obs = Obs()
    mon = Monitor(obs)
    out = []
    try:
        if case.get("part") == "comment":
            st, msg = mon.comment_eval(case["text"], case["f"], case["mode"])
            if st == "fail":
                sig, m = mon.comment_sig(case)
                out.append((sig, msg))
            res = {"violations": out, "status": st, "stripped": R.strip_comments(case["text"])[0]}
        elif case.get("part") == "history":
            # rebuild the page history (cookie table filled to the recorded level, same style), then the case as the
            # first check on that page, then once more on a new page
            used = fill_page(mon, random.Random(0), case["level"], case.get("style", "single"))
            mon.keep_page = True
            prob = mon.nowiki_eval(case)
            mon.keep_page = False
            again = mon.nowiki_eval(case)
            if prob is not None and again is None:
                tag = "/parse-mode=expand-first" if case["check"] != "expand" and case["mode"] != 0 else ""
                out.append(("nowiki/page-history-dependent(long page without start_page; passes on a new page)/%s%s"
                            % (prob[0].split(":")[0], tag), prob[1]))
            elif again is not None:
                out.append((mon.nowiki_sig(case, again)[0], again[1]))
            res = {"violations": out, "cookies_after_fill": used}
        else:
            prob = mon.nowiki_eval(case)
            if prob is not None:
                sig, m = mon.nowiki_sig(case, prob)
                out.append((sig, prob[1]))
            res = {"violations": out}
    finally:
        mon.close()
    return res
