"""Observation accumulator used by every property monitor."""
from __future__ import annotations

import hashlib
import json
import signal
import sys
import traceback
from contextlib import contextmanager


def h64(x) -> str:
    if not isinstance(x, (str, bytes)):
        x = json.dumps(x, sort_keys=True, default=str, ensure_ascii=False)
    if isinstance(x, str):
        x = x.encode("utf-8", "surrogatepass")
    return hashlib.blake2b(x, digest_size=8).hexdigest()


class Obs:
    def __init__(self, max_samples=6):
        self.evaluations = 0
        self.nontrivial = set()
        self.counters = {}
        self.anchors = {}
        self.oracle = {}
        self.maxima = {}
        self.sets = {}
        self.samples = []
        self.violations = {}
        self.notes = []
        self.inconclusive = []
        self.max_samples = max_samples

    def case(self, key, nontrivial=True, sample=None):
        """Record one evaluated case; key identifies it for distinctness."""
        self.evaluations += 1
        if nontrivial:
            self.nontrivial.add(h64(key))
        if sample is not None and len(self.samples) < self.max_samples:
            self.samples.append(sample)

    def count(self, name, n=1):
        self.counters[name] = self.counters.get(name, 0) + n

    def check(self, name, n=1):
        """An oracle (assertion / model comparison) was actually evaluated."""
        self.oracle[name] = self.oracle.get(name, 0) + n

    def maxi(self, name, v):
        if v > self.maxima.get(name, float("-inf")):
            self.maxima[name] = v

    def add(self, name, v):
        self.sets.setdefault(name, set()).add(v)

    def violation(self, sig, msg, case):
        v = self.violations.get(sig)
        if v is None:
            self.violations[sig] = {"sig": sig, "msg": msg, "case": case, "n": 1}
        else:
            v["n"] += 1
            # keep the smallest witness
            try:
                if len(json.dumps(case, default=str)) < len(json.dumps(v["case"], default=str)):
                    v["msg"], v["case"] = msg, case
            except Exception:
                pass

    def to_result(self):
        return {
            "evaluations": self.evaluations,
            "nontrivial": sorted(self.nontrivial),
            "counters": self.counters, "anchors": self.anchors, "oracle": self.oracle,
            "maxima": self.maxima,
            "sets": {k: sorted(map(str, v)) for k, v in self.sets.items()},
            "samples": self.samples,
            "violations": list(self.violations.values()),
            "notes": self.notes, "inconclusive": self.inconclusive,
        }


class CpuBudget(BaseException):
    """Raised inside a case when its CPU budget (ITIMER_VIRTUAL) is used up."""


OVERRUNS = 0          # CPU-budget overruns seen in this process


def _on_alarm(signum, frame):
    raise CpuBudget("".join(traceback.format_stack(frame, limit=12)))


@contextmanager
def cpu_guard(seconds: float):
    """Per-case CPU budget (ITIMER_VIRTUAL, load independent).  After 5 overruns in one process the budget of
    later cases shrinks to 5 s: a tree on which many cases never return would otherwise burn the full budget per
    case and run the shard into its wall-clock limit, losing the witnesses already collected."""
    global OVERRUNS
    if OVERRUNS >= 5:
        seconds = min(seconds, 5.0)
    old = signal.signal(signal.SIGVTALRM, _on_alarm)
    # repeating: if the exception is swallowed by a C caller (sqlite/lupa callback) it is raised again
    signal.setitimer(signal.ITIMER_VIRTUAL, seconds, 0.25)
    try:
        yield
    except CpuBudget:
        OVERRUNS += 1
        raise
    finally:
        signal.setitimer(signal.ITIMER_VIRTUAL, 0)
        signal.signal(signal.SIGVTALRM, old)


def innermost_repo_frame(exc: BaseException):
    """(function name, file basename) of the innermost wikitextprocessor frame of exc."""
    fn = ("?", "?")
    tb = exc.__traceback__
    while tb is not None:
        co = tb.tb_frame.f_code
        if "wikitextprocessor" in co.co_filename:
            fn = (co.co_name, co.co_filename.rsplit("/", 1)[-1])
        tb = tb.tb_next
    return fn


def exc_sig(exc: BaseException) -> str:
    f, fl = innermost_repo_frame(exc)
    return "%s@%s:%s" % (type(exc).__name__, fl, f)
