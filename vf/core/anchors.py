"""Call counters for anchored functions, via sys.monitoring PY_START local events."""
from __future__ import annotations

import sys

TOOL = 4
_counts = {}
_by_code = {}
_on = False


def _cb(code, offset):
    name = _by_code.get(code)
    if name is not None:
        _counts[name] = _counts.get(name, 0) + 1


def _codes_of(fn):
    """code object of fn and of every nested function (closures such as expand_recurse)."""
    co = getattr(fn, "__code__", None)
    if co is None and hasattr(fn, "__wrapped__"):
        co = fn.__wrapped__.__code__
    if co is None and hasattr(fn, "fget"):
        co = fn.fget.__code__
    return co


def nested(co, name):
    for c in co.co_consts:
        if hasattr(c, "co_name"):
            if c.co_name == name:
                return c
            r = nested(c, name)
            if r is not None:
                return r
    return None


def watch(targets: dict):
    """targets: display-name -> function | code object | (function, 'nested_name')"""
    global _on
    mon = sys.monitoring
    if not _on:
        mon.use_tool_id(TOOL, "vf-anchors")
        mon.register_callback(TOOL, mon.events.PY_START, _cb)
        _on = True
    for name, t in targets.items():
        try:
            if isinstance(t, tuple):
                co = nested(_codes_of(t[0]), t[1])
            elif hasattr(t, "co_name"):
                co = t
            else:
                co = _codes_of(t)
            if co is None:
                continue
            _by_code[co] = name
            _counts.setdefault(name, 0)
            mon.set_local_events(TOOL, co, mon.events.PY_START)
        except Exception:
            pass


def snapshot():
    return dict(_counts)
