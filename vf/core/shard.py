"""Shard worker: python -m vf.core.shard <PID> <dir>  (reads dir/spec.json, writes dir/result.json)"""
from __future__ import annotations

import faulthandler
import importlib
import json
import os
import resource
import sys


def prepare():
    """Process-wide preparation shared by shards and --replay."""
    # No network in the sandbox: the interwiki fetch is stubbed (DESIGN 1.2).
    try:
        import wikitextprocessor.interwiki as iw

        def _stub(ctx):  # same shape as the real return value
            return [{"prefix": "w", "local": True, "language": None,
                     "url": "https://example.org/wiki/$1"}]
        iw.get_interwiki_data = _stub
    except Exception:
        pass
    import logging
    logging.getLogger("wikitextprocessor").setLevel(logging.CRITICAL)


def main(argv):
    pid, sd = argv[1], argv[2]
    faulthandler.enable()
    with open(os.path.join(sd, "spec.json")) as f:
        spec = json.load(f)
    cpu = int(spec.get("_rlimit_cpu", 3000))
    try:
        resource.setrlimit(resource.RLIMIT_CPU, (cpu, cpu + 30))
    except Exception:
        pass
    # address-space cap: a memory bomb (in the code under test or in a reference model) must fail inside this shard
    # (MemoryError) instead of inviting the kernel's OOM killer, which picks its victims freely
    try:
        gb = int(spec.get("_rlimit_as_gb", 8))
        resource.setrlimit(resource.RLIMIT_AS, (gb << 30, gb << 30))
    except Exception:
        pass
    prepare()
    mod = importlib.import_module("vf.props." + pid.lower())
    res = mod.run_shard(spec)
    if hasattr(res, "to_result"):
        res = res.to_result()
    tmp = os.path.join(sd, "result.json.tmp")
    with open(tmp, "w") as f:
        json.dump(res, f, default=str, ensure_ascii=False)
    os.rename(tmp, os.path.join(sd, "result.json"))
    sys.stdout.flush()
    os._exit(0)


if __name__ == "__main__":
    main(sys.argv)
