"""pytest plugin (python -m pytest -p vf.core.pytest_monitor ...): the repository's OWN tests as one more workload.

The Lua stand-in pages are installed (so the Lua-facing tests run at all), the icontract conditions of
vf.core.contracts are put on the real Wtp.parse / Wtp.expand, and the C01 tree walker runs on every tree that
Wtp.parse returns while the tests execute.  Nothing aborts a test: conditions record and return True.  At session end
the observations are written to $VF_PYTEST_OUT as JSON: evaluation counts and recorded failures with the id of the
test during which each was seen."""
from __future__ import annotations

import json
import os

import wikitextprocessor.core as core
from vf.core import contracts
from vf.core.canon import wellformed, PLACEHOLDER_RE
from vf.lua import shim

_current = ["?"]
_seen = {"walker": 0, "walker_fails": [], "contract_fails": [], "tests": 0, "msg_checked": 0, "msg_fails": []}
KEYS = {"msg", "trace", "title", "section", "subsection", "called_from", "path"}

_orig_create = core.Wtp.create_db


def _create_db(self):
    _orig_create(self)
    try:
        shim.install(self)
    except Exception:
        pass


core.Wtp.create_db = _create_db
contracts.install_parse_contract()
contracts.install_stack_contracts()
_contract_parse = core.Wtp.parse


def _parse(self, text, *a, **kw):
    root = _contract_parse(self, text, *a, **kw)
    try:
        _seen["walker"] += 1
        has_ph = isinstance(text, str) and bool(PLACEHOLDER_RE.search(text))
        for rule, msg in wellformed(root, self.title, check_placeholders=not has_ph):
            if len(_seen["walker_fails"]) < 200:
                _seen["walker_fails"].append([rule + ("/placeholder-char-in-input" if has_ph else ""), msg[:300], _current[0],
                                              text[:300] if isinstance(text, str) else ""])
        # C16: every recorded message carries the documented keys
        for lst in ("errors", "warnings", "debugs", "notes", "wiki_notices"):
            for m in getattr(self, lst, []):
                _seen["msg_checked"] += 1
                if set(m.keys()) != KEYS and len(_seen["msg_fails"]) < 50:
                    _seen["msg_fails"].append(["message-keys/" + lst, repr(sorted(m.keys())), _current[0]])
    except Exception as e:      # the monitor must never disturb the test
        if len(_seen["walker_fails"]) < 200:
            _seen["walker_fails"].append(["walker-crashed:" + type(e).__name__, str(e)[:200], _current[0], ""])
    for name, d in contracts.drain():
        if len(_seen["contract_fails"]) < 200:
            _seen["contract_fails"].append([name, d[:300], _current[0]])
    return root


_parse._vf_contract = True
_parse._vf_contract16 = True
core.Wtp.parse = _parse


def pytest_runtest_setup(item):
    _current[0] = item.nodeid
    _seen["tests"] += 1


def pytest_runtest_teardown(item):
    for name, d in contracts.drain():
        if len(_seen["contract_fails"]) < 200:
            _seen["contract_fails"].append([name, d[:300], item.nodeid])


def pytest_sessionfinish(session, exitstatus):
    out = os.environ.get("VF_PYTEST_OUT")
    if out:
        _seen["evals"] = dict(contracts.EVALS)
        with open(out, "w") as f:
            json.dump(_seen, f)

