"""Helpers around the real Wtp context."""
from __future__ import annotations

from contextlib import contextmanager


@contextmanager
def fresh(lua=False, pages=None, title="Pg", commit=False, **kw):
    """A fresh temp-db context; pages: iterable of (title, ns_id, body[, model[, redirect_to]])."""
    from wikitextprocessor import Wtp
    kw.setdefault("quiet_output", True)
    kw.setdefault("quiet", True)
    ctx = Wtp(**kw)
    try:
        # process_dump() creates the interwiki table; contexts built page by page get it the
        # same way (the network fetch is stubbed in vf.core.shard.prepare)
        from wikitextprocessor.interwiki import init_interwiki_map
        init_interwiki_map(ctx)
        if lua:
            from vf.lua import shim
            shim.install(ctx)
        for p in pages or ():
            add(ctx, *p)
        if commit:
            ctx.db_conn.commit()
        if title is not None:
            ctx.start_page(title)
        yield ctx
    finally:
        try:
            ctx.close_db_conn()
        except Exception:
            pass


def add(ctx, title, ns, body, model=None, redirect_to=None, need_pre_expand=False):
    if model is None:
        model = "Scribunto" if ns == 828 else "wikitext"
    ctx.add_page(title, ns, body, redirect_to=redirect_to, need_pre_expand=need_pre_expand, model=model)
    # the page memo is not invalidated by add_page on some trees; the helpers
    # that set up a library before any lookup never depend on that.


def tmpl(name, body):
    return ("Template:" + name, 10, body)


def module(name, body):
    return ("Module:" + name, 828, body)
