"""Tree canonicalisation and the C01 well-formedness walker."""
from __future__ import annotations

import re

PLACEHOLDER_RE = re.compile("[\U0010203D-\U0010FFF0]")


def canon(x):
    """Nested-tuple form of a tree (or child list / string) for comparisons."""
    from wikitextprocessor.parser import WikiNode
    if isinstance(x, str):
        return x
    if isinstance(x, (list, tuple)):
        return tuple(canon(y) for y in x)
    if isinstance(x, WikiNode):
        return (x.kind.name, x.sarg, canon(x.largs), tuple(sorted(x.attrs.items())), canon(x.children),
                None if x.definition is None else canon(x.definition))
    return repr(x)


def wellformed(root, title, check_placeholders=True, stats=None):
    """Return a list of (rule, message) problems; empty list = well-formed (C01 clauses)."""
    from wikitextprocessor.parser import WikiNode, NodeKind as K, MAGIC_WORDS
    probs = []
    LEVELS = (K.LEVEL1, K.LEVEL2, K.LEVEL3, K.LEVEL4, K.LEVEL5, K.LEVEL6)
    ARGK = (K.TEMPLATE, K.TEMPLATE_ARG, K.PARSER_FN, K.URL, K.LINK)

    def P(rule, node, msg=""):
        if len(probs) < 20:
            probs.append((rule, "%s %s" % (msg, str(node)[:200])))

    def chk_str(s, where, node):
        if not isinstance(s, str):
            P("type-" + where, node, "non-str %r" % type(s).__name__)
            return
        if check_placeholders and PLACEHOLDER_RE.search(s):
            P("placeholder-in-" + where, node, repr(s[:80]))

    def chk_list(lst, where, node, parent_kind, depth):
        if not isinstance(lst, list):
            P("type-" + where + "-not-list", node, type(lst).__name__)
            return
        prev_str = False
        for c in lst:
            if isinstance(c, str):
                if c == "":
                    P("empty-string-in-" + where, node)
                if prev_str:
                    P("adjacent-strings-in-" + where, node)
                prev_str = True
                chk_str(c, where, node)
            elif isinstance(c, WikiNode):
                prev_str = False
                walk(c, parent_kind if where != "children" else node.kind, depth + 1, where)
            else:
                P("type-" + where + "-item", node, type(c).__name__)
                prev_str = False

    def walk(n, parent_kind, depth, via):
        k = n.kind
        if stats is not None:
            stats["kinds"][k.name] = stats["kinds"].get(k.name, 0) + 1
            if depth > stats["maxdepth"]:
                stats["maxdepth"] = depth
        if not isinstance(k, K):
            P("kind-type", n)
            return
        # containment clauses (only meaningful for nodes reached through children)
        if via == "children":
            if k == K.LIST_ITEM and parent_kind != K.LIST:
                P("list-item-not-under-list", n, "parent=%s" % parent_kind)
            if k in (K.TABLE_ROW, K.TABLE_CAPTION) and parent_kind != K.TABLE:
                P("table-part-not-under-table", n, "parent=%s" % parent_kind)
            if k in (K.TABLE_CELL, K.TABLE_HEADER_CELL) and parent_kind != K.TABLE_ROW:
                P("cell-not-under-row", n, "parent=%s" % parent_kind)
        else:
            if k in (K.LIST_ITEM, K.TABLE_ROW, K.TABLE_CAPTION, K.TABLE_CELL, K.TABLE_HEADER_CELL):
                P("structural-node-inside-" + via, n)
        if n.temp_head is not None:
            P("temp-head-left", n)
        chk_str(n.sarg, "sarg", n)
        if not isinstance(n.attrs, dict):
            P("attrs-not-dict", n)
        else:
            for a, v in n.attrs.items():
                chk_str(a, "attr-name", n)
                chk_str(v, "attr-value", n)
        if not isinstance(n.largs, list):
            P("largs-not-list", n)
        else:
            for sub in n.largs:
                chk_list(sub, "largs", n, k, depth)
        chk_list(n.children, "children", n, k, depth)
        if n.definition is not None:
            if k != K.LIST_ITEM:
                P("definition-on-non-item", n)
            chk_list(n.definition, "definition", n, k, depth)
        # per-kind field shapes (from the NodeKind docstrings)
        if k in (K.TEMPLATE, K.PARSER_FN) and hasattr(n, "template_parameters"):
            # the documented accessors of a template node must work on every tree parse() returns
            try:
                tp = n.template_parameters
                nm = n.template_name
                if not isinstance(tp, dict) or not isinstance(nm, str):
                    P("template-accessor-type", n)
            except Exception as e:
                P("template-accessor-raises:%s" % type(e).__name__, n)
        if k in ARGK:
            if n.sarg != "":
                P("sarg-on-args-kind", n)
            if k != K.LINK and n.children:
                P("children-on-args-kind", n)
            if len(n.largs) < 1:
                P("no-largs-on-args-kind", n)
        elif k == K.HTML:
            if not n.sarg or n.sarg != n.sarg.lower() or n.largs:
                P("html-sarg-shape", n)
        elif k in (K.LIST, K.LIST_ITEM):
            if not re.fullmatch(r"[*#:;]+", n.sarg) or n.largs:
                P("list-sarg-shape", n)
        elif k == K.MAGIC_WORD:
            if n.sarg not in MAGIC_WORDS or n.children or n.largs:
                P("magic-word-shape", n)
        elif k in LEVELS:
            if len(n.largs) != 1 or n.sarg != "":
                P("level-args-shape/largs=%d%s" % (len(n.largs), "/sarg" if n.sarg else ""), n)
        elif k == K.HLINE:
            if n.children or n.largs or n.sarg:
                P("hline-shape", n)
        elif k == K.ROOT:
            P("nested-root", n)
        elif k in (K.ITALIC, K.BOLD, K.PREFORMATTED, K.PRE, K.TABLE, K.TABLE_ROW, K.TABLE_CAPTION,
                   K.TABLE_CELL, K.TABLE_HEADER_CELL):
            if n.largs or n.sarg:
                P("args-on-children-kind", n)

    if not isinstance(root, WikiNode) or root.kind != K.ROOT:
        return [("not-root", repr(root)[:200])]
    if root.largs != [[title]]:
        probs.append(("root-largs", repr(root.largs)[:100]))
    if stats is not None:
        stats["kinds"]["ROOT"] = stats["kinds"].get("ROOT", 0) + 1
    if root.sarg or root.attrs or root.definition is not None or root.temp_head is not None:
        probs.append(("root-fields", ""))
    chk_list(root.children, "children", root, K.ROOT, 0)
    return probs
