"""Run the repository's own tests under vf.core.pytest_monitor (separate module: importing the plugin patches Wtp)."""
from __future__ import annotations

import json
import os


def run_repo_tests(timeout=1500):
    """Run /repo's own test directory under this plugin in a subprocess; returns the observation dict (or None)."""
    import subprocess
    import sys
    import tempfile
    import wikitextprocessor
    src = os.path.dirname(os.path.dirname(os.path.abspath(wikitextprocessor.__file__)))
    root = os.path.dirname(src)
    if not os.path.isdir(os.path.join(root, "tests")):
        return None
    fd, out = tempfile.mkstemp(suffix=".json", dir=os.environ.get("TMPDIR"))
    os.close(fd)
    env = dict(os.environ, VF_PYTEST_OUT=out)
    try:
        subprocess.run([sys.executable, "-m", "pytest", "-q", "-p", "no:cacheprovider", "-p", "vf.core.pytest_monitor",
                        "--timeout=600", "tests"], cwd=root, env=env, stdout=subprocess.DEVNULL, stderr=subprocess.DEVNULL,
                       timeout=timeout)
        with open(out) as f:
            return json.load(f)
    except Exception:
        return None
    finally:
        try:
            os.unlink(out)
        except OSError:
            pass
