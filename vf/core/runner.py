"""Runner: ./check <ID> quick|thorough  |  ./check <ID> --replay <path>

Shards the workload of one property over worker subprocesses, merges what the
monitors observed, classifies violations against known_findings.json, writes
evidence/<ID>.json and prints the verdict lines.

Exit codes: 0 held (on everything explored), 1 violation (VIOLATION line),
2 inconclusive (deciding monitor not reached / shard lost) -- never folded
into held or violated.
"""
from __future__ import annotations

import hashlib
import importlib
import json
import os
import shutil
import subprocess
import sys
import tempfile
import time

VERIF = os.path.dirname(os.path.dirname(os.path.dirname(os.path.abspath(__file__))))
NPROC = int(os.environ.get("VERIF_NPROC", "16"))


def load_known():
    with open(os.path.join(VERIF, "known_findings.json")) as f:
        return json.load(f)


def _merge(total, r):
    total["evaluations"] += r.get("evaluations", 0)
    total["nontrivial"].update(r.get("nontrivial", []))
    for grp in ("counters", "anchors", "oracle"):
        for k, v in r.get(grp, {}).items():
            total[grp][k] = total[grp].get(k, 0) + v
    for k, v in r.get("maxima", {}).items():
        total["maxima"][k] = max(total["maxima"].get(k, v), v)
    for k, v in r.get("sets", {}).items():
        total["sets"].setdefault(k, set()).update(v)
    for s in r.get("samples", []):
        if len(total["samples"]) < 12:
            total["samples"].append(s)
    for v in r.get("violations", []):
        total["viol_count"][v["sig"]] = total["viol_count"].get(v["sig"], 0) + v.get("n", 1)
        lst = total["violations"].setdefault(v["sig"], [])
        if len(lst) < 5:
            lst.append(v)
    total["notes"].extend(r.get("notes", []))
    total["inconclusive"].extend(r.get("inconclusive", []))


def run_pool(pid, specs, wall):
    """Run every shard spec in its own subprocess, at most NPROC at a time."""
    tmp = tempfile.mkdtemp(prefix="vf_%s_" % pid, dir=os.environ.get("VERIF_SCRATCH"))
    pending = list(enumerate(specs))
    running = {}
    results = [None] * len(specs)
    failures = []
    env = dict(os.environ)
    try:
        while pending or running:
            while pending and len(running) < NPROC:
                i, spec = pending.pop(0)
                sd = os.path.join(tmp, "s%d" % i)
                os.makedirs(sd)
                with open(os.path.join(sd, "spec.json"), "w") as f:
                    json.dump(spec, f)
                e = dict(env)
                e["TMPDIR"] = sd
                p = subprocess.Popen(
                    [sys.executable, "-m", "vf.core.shard", pid, sd],
                    env=e, stdout=open(os.path.join(sd, "out"), "w"), stderr=subprocess.STDOUT,
                    cwd=VERIF, start_new_session=True)
                running[i] = (p, time.time(), sd, spec)
            time.sleep(0.05)
            for i in list(running):
                p, t0, sd, spec = running[i]
                rc = p.poll()
                if rc is None and time.time() - t0 > wall:
                    try:
                        os.killpg(p.pid, 9)
                    except Exception:
                        p.kill()
                    p.wait()
                    rc = "wall-timeout"
                if rc is None:
                    continue
                del running[i]
                rf = os.path.join(sd, "result.json")
                if os.path.exists(rf):
                    with open(rf) as f:
                        results[i] = json.load(f)
                    if rc != 0:
                        results[i].setdefault("inconclusive", []).append(
                            "shard %d exited %r after writing result" % (i, rc))
                else:
                    tail = ""
                    try:
                        with open(os.path.join(sd, "out")) as f:
                            tail = f.read()[-1500:]
                    except Exception:
                        pass
                    failures.append({"shard": i, "rc": rc, "tail": tail, "spec": spec})
                shutil.rmtree(sd, ignore_errors=True)
    finally:
        for i, (p, *_rest) in running.items():
            try:
                os.killpg(p.pid, 9)
            except Exception:
                pass
        shutil.rmtree(tmp, ignore_errors=True)
    return results, failures


def main(argv):
    if len(argv) < 3:
        print("usage: check <ID> quick|thorough | check <ID> --replay <path>")
        return 2
    pid = argv[1].upper()
    mod = importlib.import_module("vf.props." + pid.lower())
    if argv[2] == "--replay":
        with open(argv[3]) as f:
            w = json.load(f)
        from vf.core import shard as _sh
        _sh.prepare()
        out = mod.replay(w["case"])
        print(json.dumps({"recorded_sig": w.get("sig"), "replayed": out}, indent=1, default=str, ensure_ascii=False))
        return 1 if out.get("violations") else 0
    tier = argv[2]
    assert tier in ("quick", "thorough"), tier
    seed = int(os.environ.get("VERIF_SEED", "0"))
    os.environ["VERIF_TIER"] = tier
    t0 = time.time()
    specs = mod.shards(tier, seed)
    wall = getattr(mod, "WALL", {"quick": 600, "thorough": 3600})[tier]
    results, failures = run_pool(pid, specs, wall)
    total = {"evaluations": 0, "nontrivial": set(), "counters": {}, "anchors": {}, "oracle": {},
             "maxima": {}, "sets": {}, "samples": [], "violations": {}, "viol_count": {},
             "notes": [], "inconclusive": []}
    for r in results:
        if r is not None:
            _merge(total, r)
    for fl in failures:
        total["inconclusive"].append("shard %s lost (rc=%r): %s" % (fl["shard"], fl["rc"], fl["tail"][-400:]))
    # module-level floors: counters that must be > 0 for the verdict to mean anything
    for name, floor in getattr(mod, "floors", lambda t: {})(tier).items():
        grp, _, key = name.partition(".")
        have = total.get(grp, {}).get(key, 0) if grp in ("counters", "anchors", "oracle") else 0
        if grp == "sets":
            have = len(total["sets"].get(key, ()))
        if grp == "evaluations":
            have = total["evaluations"]
        if grp == "nontrivial":
            have = len(total["nontrivial"])
        if have < floor:
            total["inconclusive"].append("floor not reached: %s = %s < %s" % (name, have, floor))

    known = load_known()
    listed = {k["key"]: k for k in known.get("findings", []) if k["property"] == pid}
    new_sigs = [s for s in total["violations"] if s not in listed]
    evdir = os.environ.get("VERIF_EVIDENCE_DIR") or os.path.join(VERIF, "evidence")
    os.makedirs(evdir, exist_ok=True)
    rdir = os.path.join(os.environ.get("VERIF_REPLAY_DIR") or os.path.join(VERIF, "replay"), pid)
    lines = []
    for key, k in listed.items():
        n = total["viol_count"].get(key, 0)
        lines.append("KNOWN-FINDING: property=%s %s -- %s (observed %d times this run)" % (
            pid, key, k["what_fails"], n))
    vio_lines = []
    for sig in new_sigs:
        os.makedirs(rdir, exist_ok=True)
        v = total["violations"][sig][0]
        h = hashlib.sha1((sig + json.dumps(v.get("case"), sort_keys=True, default=str)).encode()).hexdigest()[:12]
        path = os.path.join(rdir, h + ".json")
        with open(path, "w") as f:
            json.dump({"property": pid, "sig": sig, "msg": v.get("msg"), "case": v.get("case"),
                       "count": total["viol_count"][sig]}, f, indent=1, default=str, ensure_ascii=False)
        vio_lines.append("VIOLATION property=%s replay=%s sig=%s :: %s" % (
            pid, path, sig, str(v.get("msg"))[:300].replace("\n", "\\n")))

    wall_s = round(time.time() - t0, 2)
    cov = {
        "evaluations": total["evaluations"],
        "distinct_nontrivial": len(total["nontrivial"]),
        "rule": getattr(mod, "RULE", ""),
        "samples": total["samples"],
        "anchors_hit": total["anchors"],
        "oracle_evaluations": total["oracle"],
        "counters": total["counters"],
        "maxima": total["maxima"],
        "sets": {k: sorted(map(str, v))[:200] for k, v in total["sets"].items()},
        "set_sizes": {k: len(v) for k, v in total["sets"].items()},
        "shards": len(specs),
        "shards_lost": len(failures),
        "known_findings_observed": {k: total["viol_count"].get(k, 0) for k in listed},
        "new_violation_signatures": {s: total["viol_count"][s] for s in new_sigs},
        "inconclusive_reasons": total["inconclusive"][:20],
        "notes": sorted(set(total["notes"]))[:40],
    }
    if hasattr(mod, "exhaustive"):
        cov["exhaustive"] = bool(mod.exhaustive(tier, total))
    ev = {
        "property_id": pid, "tier": tier, "seed": seed,
        "level": getattr(mod, "LEVEL", "exploration"),
        "coverage": cov,
        "assumptions": getattr(mod, "ASSUMPTIONS", []),
        "wall_s": wall_s,
        "violations": sum(total["viol_count"][s] for s in new_sigs),
        "verdict": "violated" if new_sigs else ("inconclusive" if total["inconclusive"] else "held on what was observed"),
    }
    with open(os.path.join(evdir, pid + ".json"), "w") as f:
        json.dump(ev, f, indent=1, default=str, ensure_ascii=False)
    for ln in lines:
        print(ln)
    print("%s %s seed=%d: %d evaluations, %d distinct non-trivial, %d shards, %.1fs; anchors=%s" % (
        pid, tier, seed, total["evaluations"], len(total["nontrivial"]), len(specs), wall_s,
        json.dumps(total["anchors"])[:600]))
    if vio_lines:
        for ln in vio_lines:
            print(ln)
        return 1
    if total["inconclusive"]:
        for r in total["inconclusive"][:10]:
            print("INCONCLUSIVE property=%s reason=%s" % (pid, str(r)[:500].replace("\n", "\\n")))
        return 2
    print("HELD property=%s on everything explored" % pid)
    return 0


if __name__ == "__main__":
    sys.exit(main(sys.argv))
