"""icontract contracts applied from the harness to the real Wtp methods (no repo edit).

Conditions record and return True (so they never abort what they observe);
the recorded failures are turned into violations by the property module."""
from __future__ import annotations

import icontract

EVALS = {}
FAILS = []   # (name, detail)


class ContractBroken(Exception):
    pass


def _ev(name):
    EVALS[name] = EVALS.get(name, 0) + 1


def install_parse_contract():
    """Postcondition on Wtp.parse: ROOT result, empty parser stack, counters reset."""
    import wikitextprocessor.core as core
    from wikitextprocessor.parser import NodeKind
    if getattr(core.Wtp.parse, "_vf_contract", False):
        return

    def parse_post(self, result):
        _ev("parse.post")
        bad = []
        if getattr(result, "kind", None) is not NodeKind.ROOT:
            bad.append("result-not-ROOT")
        if self.parser_stack != []:
            bad.append("parser_stack-not-empty")
        if self.begline_disable_counter != 0 or self.begline_enabled is not True:
            bad.append("begline-counter-not-reset")
        for b in bad:
            FAILS.append(("parse.post/" + b, ""))
        return True

    wrapped = icontract.ensure(parse_post, error=ContractBroken)(core.Wtp.parse)
    wrapped._vf_contract = True
    core.Wtp.parse = wrapped


def install_stack_contracts():
    """C16: expand_stack after expand()/parse() equals its value at entry (nested calls too)."""
    import wikitextprocessor.core as core
    if getattr(core.Wtp.expand, "_vf_contract16", False):
        return

    def stack_before(self):
        return list(self.expand_stack)

    def mk(name):
        def post(self, OLD):
            _ev(name + ".stack")
            if list(self.expand_stack) != OLD.st:
                FAILS.append((name + ".stack", "before=%r after=%r" % (OLD.st[-4:], list(self.expand_stack)[-6:])))
            return True
        return post

    for meth in ("expand", "parse"):
        f = getattr(core.Wtp, meth)
        w = icontract.snapshot(stack_before, name="st")(icontract.ensure(mk(meth), error=ContractBroken)(f))
        w._vf_contract16 = True
        setattr(core.Wtp, meth, w)


def drain():
    out = list(FAILS)
    del FAILS[:]
    return out
