#!/usr/bin/env python3
"""Run the repository's pinned test suite (guard OFF) and compare with BASELINE.json stable_pass."""
import json, os, subprocess, sys, tempfile
import xml.etree.ElementTree as ET
base = json.load(open("/root/.vp/BASELINE.json"))
fd, xml = tempfile.mkstemp(suffix=".xml"); os.close(fd)
env = dict(os.environ); env.pop("WIKITEXTPROCESSOR_VERIF", None)
subprocess.run(base["cmd"].replace("<file>", xml), shell=True, env=env, stdout=subprocess.DEVNULL, stderr=subprocess.DEVNULL)
passed = set()
for tc in ET.parse(xml).getroot().iter("testcase"):
    if not any(c.tag in ("failure", "error", "skipped") for c in tc):
        passed.add("%s::%s" % (tc.get("classname"), tc.get("name")))
os.unlink(xml)
want = set(base["stable_pass"])
missing = sorted(want - passed)
print("baseline stable_pass=%d  passed_now=%d  missing=%d  newly_passing=%d" % (len(want), len(passed), len(missing), len(passed - want)))
for m in missing[:30]:
    print("  NOT PASSING:", m)
sys.exit(1 if missing else 0)
