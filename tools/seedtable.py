#!/usr/bin/env python3
"""Regenerates the seeded-breakage table of DESIGN.md (between the SEEDTABLE markers) from seeded/*/meta.json."""
import json, os, re, glob
H = os.path.dirname(os.path.dirname(os.path.abspath(__file__)))
rows = []
for d in sorted(glob.glob(os.path.join(H, "seeded", "*"))):
    mp = os.path.join(d, "meta.json")
    if not os.path.exists(mp):
        continue
    m = json.load(open(mp))
    name = os.path.basename(d)
    summ = re.sub(r"\s+", " ", str(m.get("summary", "")))[:230]
    needs = re.sub(r"\s+", " ", str(m.get("needs", "")))[:200]
    c = m.get("check", {})
    sig = "; ".join(s[:80] for s in c.get("signatures", [])[:2])
    hist = m.get("history", "") or ""
    if m.get("rebased"):
        hist = (hist + "; " if hist else "") + "re-anchored: " + re.sub(r"\s+", " ", str(m["rebased"]))[:160]
    rows.append("| %s | %s | %s | %s | %s |" % (name, summ.replace("|", "\\|"), needs.replace("|", "\\|"),
                ("obsolete (a later repair made the mistake impossible or harmless, see history)" if m.get("obsolete") else (("**caught** (%s)" % c.get("tier", "quick")) if c.get("detected") else "MISSED")), (sig.replace("|", "\\|") + (" — " + hist if hist else ""))))
table = "| seed | change | needs | ./check | first signature(s) / history |\n|---|---|---|---|---|\n" + "\n".join(rows)
p = os.path.join(H, "DESIGN.md")
s = open(p).read()
a, b = "<!-- SEEDTABLE:BEGIN -->", "<!-- SEEDTABLE:END -->"
if a in s:
    s = s[: s.index(a) + len(a)] + "\n" + table + "\n" + s[s.index(b):]
    open(p, "w").write(s)
print(len(rows), "rows")
