"""pytest plugin: run the repository's own tests with the Lua stand-in pages installed
(python -m pytest -p tools.shimplugin ...) -- used to validate Lua-side fixes, since the
Scribunto submodule is empty and most Lua tests cannot run otherwise."""
import wikitextprocessor.core as core
from vf.lua import shim
_orig = core.Wtp.create_db


def create_db(self):
    _orig(self)
    try:
        shim.install(self)
    except Exception:
        pass


core.Wtp.create_db = create_db
