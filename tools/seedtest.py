#!/usr/bin/env python3
"""tools/seedtest.py <seed dir> <PID> [tier] [--keep <name>]
Validate one seeded breakage (patch.diff + demo.py + meta.json) against a scratch copy of /repo HEAD and run the
property's check against it.  Prints a JSON line; with --keep copies the seed into /verif/seeded/<name>/."""
import json, os, shutil, subprocess, sys, tempfile
import xml.etree.ElementTree as ET

def sh(cmd, **kw):
    return subprocess.run(cmd, shell=True, capture_output=True, text=True, **kw)

def main():
    sdir, pid = sys.argv[1], sys.argv[2]
    tier = sys.argv[3] if len(sys.argv) > 3 and not sys.argv[3].startswith("--") else "quick"
    keep = sys.argv[sys.argv.index("--keep") + 1] if "--keep" in sys.argv else None
    res = {"seed": sdir, "property": pid, "tier": tier}
    D = tempfile.mkdtemp(prefix="seedrun.")
    try:
        sh("git -C /repo archive HEAD | tar -x -C %s" % D)
        env = dict(os.environ, PYTHONPATH="%s/src" % D, PYTHONHASHSEED="0", PYTHONDONTWRITEBYTECODE="1")
        r = sh("timeout 300 /venv/bin/python %s/demo.py" % sdir, env=env, cwd=D)
        res["demo_clean_rc"] = r.returncode
        a = sh("patch -p1 --no-backup-if-mismatch < %s/patch.diff" % sdir, cwd=D)
        res["patch_applies"] = a.returncode == 0
        if a.returncode != 0:
            res["patch_msg"] = (a.stdout + a.stderr)[-400:]
            print(json.dumps(res)); return
        r = sh("timeout 300 /venv/bin/python %s/demo.py" % sdir, env=env, cwd=D)
        res["demo_patched_rc"] = r.returncode
        res["demo_patched_out"] = (r.stdout + r.stderr)[-300:]
        # the pinned test suite on the patched copy (skipped with --no-tests when an earlier validation is on record)
        prev = {}
        try:
            prev = json.load(open(os.path.join(sdir, "meta.json"))).get("validated", {})
        except Exception:
            pass
        skip_tests = "--no-tests" in sys.argv and prev.get("tests_ok") is True
        base = json.load(open("/root/.vp/BASELINE.json"))
        xml = os.path.join(D, "junit.xml")
        if not skip_tests:
          sh("cd %s && timeout 900 /venv/bin/python -m pytest -q -p no:cacheprovider --timeout=900 --continue-on-collection-errors --junitxml=%s tests" % (D, xml), env=env)
        passed = set(base["stable_pass"]) if skip_tests else set()
        try:
            for tc in ([] if skip_tests else ET.parse(xml).getroot().iter("testcase")):
                if not any(c.tag in ("failure", "error", "skipped") for c in tc):
                    passed.add("%s::%s" % (tc.get("classname"), tc.get("name")))
        except Exception as e:
            res["tests_error"] = repr(e)
        missing = sorted(set(base["stable_pass"]) - passed)
        res["tests_missing"] = missing[:5]
        res["tests_ok"] = not missing
        # the check
        env2 = dict(env, PYTHONPATH="%s/src:/verif:/verif/.deps" % D, VERIF_EVIDENCE_DIR=D + "/evidence", VERIF_REPLAY_DIR=D + "/replay")
        c = sh("timeout 3000 /venv/bin/python -m vf.core.runner %s %s" % (pid, tier), env=env2, cwd="/verif")
        lines = [l for l in c.stdout.splitlines() if l.startswith(("VIOLATION", "INCONCLUSIVE", "HELD"))]
        res["check_rc"] = c.returncode
        res["check_sigs"] = sorted({l.split("sig=", 1)[1].split(" :: ")[0] for l in lines if l.startswith("VIOLATION")})[:8]
        res["check_first"] = [l[:300] for l in lines[:2]]
        res["detected"] = c.returncode == 1
        if keep:
            K = "/verif/seeded/" + keep
            os.makedirs(K, exist_ok=True)
            for f in ("patch.diff", "demo.py"):
                if os.path.abspath(os.path.join(sdir, f)) != os.path.abspath(os.path.join(K, f)):
                    shutil.copy(os.path.join(sdir, f), os.path.join(K, f))
            meta = {}
            try:
                meta = json.load(open(os.path.join(sdir, "meta.json")))
            except Exception:
                pass
            keep_hist = meta.get("history")
            meta.update({"property": pid, "validated": {k: res[k] for k in ("demo_clean_rc", "demo_patched_rc", "tests_ok", "patch_applies")},
                         "check": {"tier": tier, "detected": res["detected"], "signatures": res["check_sigs"]},
                         "what_we_ran": "tools/seedtest.py: git archive of /repo HEAD into a scratch dir; demo.py on the clean copy (exit %s) and on the patched copy (exit %s); pinned test suite on the patched copy vs BASELINE stable_pass (%s); ./check %s %s against the patched copy (exit %s)" % (
                             res["demo_clean_rc"], res["demo_patched_rc"], "all still pass" if res["tests_ok"] else "REGRESSED", pid, tier, res["check_rc"])})
            json.dump(meta, open(os.path.join(K, "meta.json"), "w"), indent=1)
    finally:
        shutil.rmtree(D, ignore_errors=True)
    print(json.dumps(res))

main()
