#!/usr/bin/env python3
"""Regenerate MANIFEST.json from the table below (one entry per claimed property)."""
import json, os, sys
HERE = os.path.dirname(os.path.dirname(os.path.abspath(__file__)))
C = {
 "C01": ("exploration", "runtime monitoring: icontract postcondition on Wtp.parse + structural invariant walker over generated hostile inputs",
         "Wtp.parse executed on 10^4-10^6 generated inputs (token soups over the whole token alphabet incl. constructs inside tags and confusable characters, grammar documents, mutated real pages, depth stress, call shapes, run ladders whose CPU growth is extrapolated, and the repository's own tests) under plain / pre_expand / expand_all and with re-entrant template hooks; an icontract postcondition on the real method, a tree walker for every clause of the statement and a state probe run on every returned tree; held = no clause failed on any observed execution",
         "trusted: the walker's reading of the NodeKind docstrings; Lua stand-ins for the absent Scribunto files; inputs containing placeholder-range characters are a tagged class (documented assumption of the package)"),
 "C02": ("exploration", "runtime monitoring: unique-id outlines parsed by the real parser vs executable stack models of sections and lists (bounded-exhaustive + sampled)",
         "every heading-level sequence up to length 3/4 and every marker sequence up to 2/3 lines (exhaustive) plus sampled longer outlines, each with balanced fillers, parsed by Wtp.parse; every id's parent section / parent item / list identity compared with a 15+20 line model written from the statement",
         "trusted: the two small models; fillers restricted to balanced markup as the property says"),
 "C03": ("exploration", "runtime monitoring: render/parse inverse on generated specification objects (tables, paired HTML tags, links, template calls)",
         "spec objects (r x c grids with kinds/attributes/contents, all 73 paired tags, links/ext links/template calls) rendered to wikitext, parsed by the real parser and read back into the same spec shape; equality of specs on every case",
         "trusted: renderer + tree reader; contents compared modulo blanks at cell ends"),
 "C04": ("exploration", "runtime monitoring: reference-model differential (AST evaluator of the MediaWiki transclusion rules vs Wtp.expand), delta-minimised witnesses",
         "acyclic template libraries and pages generated from an expansion AST grammar; the AST is evaluated by an independent reference and the rendered wikitext by the real expand(); outputs must be equal on every case; per-rule hit counters show every rule of the statement was exercised",
         "trusted: the reference evaluator (rules named in the statement); text alphabet without '=', '|', braces; tagged classes: positional trailing newline, numeric comparands"),
 "C05": ("exploration", "runtime monitoring: boundary wrapper on Wtp.expand (return | exception | CPU-budget overrun) over cyclic template libraries and every parser function x hostile arguments",
         "expand() run on libraries with arbitrary (cyclic) call graphs, nesting to depth 100 and far beyond (150/400/1100) in 17 shapes, every PARSER_FUNCTIONS key with hostile argument vectors, hostile argument names, template-free bracket soups, #expr token soups and magic words on every namespace; each call must return a str within a CPU budget; where the reference evaluator meets unbounded recursion the output must carry an error element and a recorded message",
         "trusted: CPU budget 10/20 s per <=2 kB case stands for 'bounded time'; network-bound functions excluded"),
 "C10": ("exploration", "runtime monitoring: recorded API histories with unique versions checked against a sequential store model (bounded-exhaustive + random)",
         "all operation histories up to length 3/4 over a 22-symbol alphabet plus random histories to length 40 run on the real page store (add/overwrite/redirect/lookup/exists/body/expand/commit/reopen/second context); every read compared with a sequential model; unique bodies identify the write each read observed",
         "trusted: the model's spelling rules taken from the statement"),
 "C11": ("fault_enumeration", "runtime fault injection: process kill at every traced source line (fork + os._exit) and at file-mutating syscalls (strace inject), verifier in a fresh process vs an allowed-state machine",
         "for 8 scenario kinds x start states the scenario is killed at every executed line of the backup/overwrite/commit/close/restore functions (and, thorough, at every pwrite/fsync/rename/unlink/ftruncate); a fresh process reopens the path twice, runs PRAGMA integrity_check and compares the visible pages with the set the reference state machine allows for that kill point",
         "kill model = process exit with files and OS cache surviving (as the property states), not power loss"),
 "C12": ("exploration", "runtime monitoring: generated .xml.bz2 dumps ingested by the real process_dump / parse_dump_xml vs the expected table derived from the page list",
         "dumps generated over every namespace of six languages with hostile titles/bodies/models/redirects/duplicates, written with lxml, ingested through the real code; the stored table (and what a second connection sees) compared string-exactly with the expected table",
         "trusted: the expected-table rules from the statement; independent includable-part scanner"),
 "C13": ("exploration", "runtime monitoring: selective reference evaluator + confluence relation + recording template_fn/post_template_fn hooks vs Wtp.expand",
         "all 64 subsets of a 6-template library as selection x not-expand sets x pre-expand flags x switches x hook policies; output and hook-call multisets compared with the reference; expand(expand_sel(p)) == expand(p) checked on the real code",
         "trusted: reference rules from the docstrings/README; five tagged classes with their own signatures (listed in known_findings.json)"),
 "C14": ("exploration", "runtime monitoring: three real views of one argument list (parsed node, template_fn map, Lua echo module) compared with each other and with the statement's rule",
         "every admissible argument list up to length 2/3 over a 13-atom alphabet (exhaustive) plus padding sweeps and random lists to length 6; the three views are obtained from the real parse/expand/#invoke and compared typed key by typed key",
         "trusted: the rule as tie-breaker; Lua stand-ins"),
 "C15": ("exploration", "runtime monitoring: re-derived quoting map + recording template_fn + comment-deletion metamorphic relation on real expand/parse",
         "nowiki contents from the token alphabet in 28 expand and 15 parse embedding contexts: output must equal the 15-character quoting of the content, decode back, stay one text node and trigger no expansion; inputs with comments must behave as the same input with the comments deleted",
         "trusted: the 15-character map re-derived from the documentation; comment relation asserted only where gluing creates no new delimiter"),
 "C16": ("exploration", "runtime monitoring: icontract snapshot/ensure on Wtp.expand / Wtp.parse (nested calls included), message-shape invariant, start_page postcondition, 300x repetition",
         "pages mixing templates, loops, failing/timing-out Lua (virtual clock), bad parser-function input, non-decimal digit argument names and a caller hook that raises inside nested sub-expansions, under all 27 option combinations; expand_stack after every returning call (also nested ones made by frame:preprocess/expandTemplate) must equal its value at entry; every message checked for keys/title/section; 300 flat repetitions must not produce a depth error",
         "trusted: documented message keys = ErrorMessageData"),
 "C17": ("exploration", "runtime monitoring: real analyze_templates on generated inclusion graphs with a table-driven classifier vs a closure model (bounded-exhaustive + random)",
         "all libraries on <=3 templates (adjacency x flags x redirects; sampled with redirect pages in quick) and random graphs to 8 templates with cycles, diamonds, hostile spellings; the marked set must equal the joint least fixed point of the three rules (flagged, includers, redirects from/to) seeded with flagged and already-marked templates; a second analysis of the unchanged store must not change it (idempotence); termination under a CPU budget",
         "trusted: closure model; name resolution by the C10 title rules"),
 "C18": ("exploration", "runtime monitoring: #expr AST differential on the implementation's own primitives + independent string-function definitions + formatnum round trip over all shipped locales",
         "expression ASTs to depth 5 over all 19 operators rendered with minimal/full parentheses, random spacing and case must all evaluate to the AST's value (mod, fmod, round by independent definitions on fixed grids incl. exact halves and negative operands); string functions compared with independent definitions on exhaustive small grids; plural and formatnum/R round trip for every locale file",
         "trusted: independent definitions of mod / fmod / round and of the string functions written from the MediaWiki manual; the implementation's own table only for the remaining arithmetic primitives; documented domains only"),
 "C19": ("exploration", "runtime monitoring: parse -> to_wikitext -> parse metamorphic relation under a block-boundary normaliser, second round trip, subtrees and strings",
         "grammar documents to depth 4: N(parse(to_wikitext(t))) == N(t), second trip is a fixed point, subtrees/child lists/strings passed directly, literal brackets never become links",
         "trusted: normaliser N (whitespace at block boundaries only)"),
 "C20": ("exploration", "runtime monitoring: k real worker processes on one database with line-level delay injection (sys.settrace), offline checker over per-worker logs + table diff",
         "2..16 workers (forked, or separately started interpreters with distinct hash seeds) open the same path through a barrier with seed-derived 0-30 ms delays between the lines of create_db / bootstrap; results compared with a single-process reference and a by-construction model; pages table compared before/after; distinct interleavings counted",
         "schedules explored by perturbation, not exhaustively; evidence lists the interleavings seen"),
}
NOT_YET = {
 "C06": "monitor not built yet in this session (design: DESIGN.md C06); will be claimed once vf/props/c06.py exists",
 "C07": "monitor not built yet in this session (design: DESIGN.md C07)",
 "C08": "monitor not built yet in this session (design: DESIGN.md C08)",
 "C09": "monitor not built yet in this session (design: DESIGN.md C09)",
}
EXTRA = {}
try:
    EXTRA = json.load(open(os.path.join(HERE, "tools", "manifest_extra.json")))
except Exception:
    pass
C.update({k: tuple(v) for k, v in EXTRA.get("checks", {}).items()})
for k in list(NOT_YET):
    if k in C or not EXTRA.get("not_yet", {}).get(k, True):
        NOT_YET.pop(k)
checks = []
for pid in sorted(C):
    if not os.path.exists(os.path.join(HERE, "vf", "props", pid.lower() + ".py")):
        continue
    lvl, tech, text, note = C[pid]
    checks.append({"property_id": pid, "quick_cmd": "./check %s quick" % pid, "thorough_cmd": "./check %s thorough" % pid,
                   "evidence_file": "evidence/%s.json" % pid, "replay_cmd_template": "./check %s --replay {path}" % pid,
                   "engine": "vf", "level_claimed": {"category": lvl, "text": text, "design_ref": "DESIGN.md section 3, %s" % pid},
                   "level_note": note, "technique": tech})
m = {"version": 1, "setup_cmd": "./setup.sh",
     "notes": "Runtime monitoring only: every check runs the real code in /repo/src (PYTHONPATH) under generated/hostile/fault-injected workloads while monitors observe it; exit 0 held / 1 VIOLATION / 2 inconclusive. See DESIGN.md.",
     "hooks": {"guard": "WIKITEXTPROCESSOR_VERIF",
               "enable": "no source hooks: monitors wrap the real functions from outside (icontract, sys.monitoring, sys.settrace, Lua globals through lupa, fork/strace kill points)",
               "baseline_off_cmd": "python3 tools/baseline.py", "source_commits": [], "add_only": True},
     "engines": [{"name": "vf", "path": "vf/", "serves_properties": [c["property_id"] for c in checks],
                  "kind_free_text": "python runtime-monitoring harness: shard pool, observation accumulator, icontract contracts, sys.monitoring anchors, reference models, generators, kill/delay injection"}],
     "checks": checks,
     "not_applicable": [{"property_id": k, "reason": v} for k, v in sorted(NOT_YET.items())]}
json.dump(m, open(os.path.join(HERE, "MANIFEST.json"), "w"), indent=1)
print("checks:", [c["property_id"] for c in checks], "not claimed:", sorted(NOT_YET))
