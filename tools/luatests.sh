#!/bin/sh
# Run tests/test_lua.py + tests/test_wikiprocess.py of a checkout (default /repo) with the Lua stand-ins; prints failing ids
SRC="${1:-/repo}"
cd "$SRC" && PYTHONPATH="$SRC/src:/verif:/verif/.deps" /venv/bin/python -m pytest -q -p no:cacheprovider -p tools.shimplugin --timeout=600 tests/test_lua.py tests/test_wikiprocess.py 2>&1 | grep -E "^FAILED|^ERROR|passed|failed" | sed 's/ - .*//' | sort
