#!/usr/bin/env python3
"""tools/fixtest.py <patch.diff> [PID ...]
Try a candidate repair of /repo WITHOUT touching /repo: scratch copy of /repo HEAD + the patch, then
(1) the pinned test suite vs BASELINE stable_pass, (2) the Lua-facing tests with stand-ins (must stay 22 failed / 616 passed),
(3) for every PID given: ./check PID quick against the patched copy (evidence/replay go to the scratch dir).  Prints one JSON line."""
import json, os, shutil, subprocess, sys, tempfile
import xml.etree.ElementTree as ET

def sh(cmd, **kw):
    return subprocess.run(cmd, shell=True, capture_output=True, text=True, **kw)

patch = os.path.abspath(sys.argv[1])
pids = sys.argv[2:]
D = tempfile.mkdtemp(prefix="fixtest.")
res = {"patch": patch}
try:
    sh("git -C /repo archive HEAD | tar -x -C %s" % D)
    a = sh("cd %s && git init -q . && git apply --whitespace=nowarn %s" % (D, patch))
    res["applies"] = a.returncode == 0
    if not res["applies"]:
        res["apply_err"] = a.stderr[-300:]
    else:
        base = json.load(open("/root/.vp/BASELINE.json"))
        env = dict(os.environ, PYTHONPATH=D + "/src")
        xml = D + "/junit.xml"
        sh("cd %s && timeout 1200 /venv/bin/python -m pytest -q -p no:cacheprovider --timeout=900 --continue-on-collection-errors --junitxml=%s tests" % (D, xml), env=env)
        passed = set()
        for tc in ET.parse(xml).getroot().iter("testcase"):
            if not any(c.tag in ("failure", "error", "skipped") for c in tc):
                passed.add("%s::%s" % (tc.get("classname"), tc.get("name")))
        missing = sorted(set(base["stable_pass"]) - passed)
        res["baseline_missing"] = missing[:10]
        res["baseline_ok"] = not missing
        l = sh("sh /verif/tools/luatests.sh %s" % D)
        tail = [x for x in l.stdout.splitlines() if "passed" in x or "failed" in x]
        res["luatests"] = tail[-1].strip() if tail else "?"
        res["luatests_ok"] = "22 failed, 616 passed" in res["luatests"]
        for pid in pids:
            env2 = dict(os.environ, PYTHONPATH="%s/src:/verif:/verif/.deps" % D, PYTHONHASHSEED="0",
                        VERIF_EVIDENCE_DIR=D + "/evidence", VERIF_REPLAY_DIR=D + "/replay")
            c = sh("timeout 3000 /venv/bin/python -m vf.core.runner %s quick" % pid, env=env2, cwd="/verif")
            lines = [x[:300] for x in c.stdout.splitlines() if x.startswith(("VIOLATION", "INCONCLUSIVE", "HELD"))]
            res["check_" + pid] = {"rc": c.returncode, "lines": lines[:6]}
finally:
    shutil.rmtree(D, ignore_errors=True)
print(json.dumps(res))
