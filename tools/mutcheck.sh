#!/bin/sh
# tools/mutcheck.sh <patch.diff|-r COMMIT> <PID> [tier]  -- run a check against a scratch copy of /repo/src with a patch applied
# (evidence/replay go to a scratch dir; /repo and /verif/evidence are untouched).  -r COMMIT reverts that commit instead.
set -e
P="$1"; shift
if [ "$P" = "-r" ]; then REV="$1"; shift; fi
PID="$1"; TIER="${2:-quick}"
D=$(mktemp -d /tmp/mut.XXXXXX)
git -C /repo archive HEAD src | tar -x -C "$D"
if [ -n "$REV" ]; then git -C /repo show "$REV" -- src | (cd "$D" && patch -R -p1 -s)
else (cd "$D" && patch -p1 -s < "$P"); fi
cd /verif
export PYTHONPATH="$D/src:/verif:/verif/.deps" PYTHONHASHSEED=0 PYTHONDONTWRITEBYTECODE=1
export VERIF_EVIDENCE_DIR="$D/evidence" VERIF_REPLAY_DIR="$D/replay"
set +e
/venv/bin/python -m vf.core.runner "$PID" "$TIER" 2>&1 | grep -v "^KNOWN-FINDING" | cut -c1-500
rc=$?
rm -rf "$D"
exit $rc
