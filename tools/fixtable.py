#!/usr/bin/env python3
"""Regenerates the repaired-defects table of DESIGN.md section 9 (between the FIXTABLE markers) from known_findings.json."""
import json, os, re, collections
H = os.path.dirname(os.path.dirname(os.path.abspath(__file__)))
k = json.load(open(os.path.join(H, "known_findings.json")))
by = collections.defaultdict(list)
for l in k["fixed"]:
    m = re.match(r"fixed: property=([C0-9/]+) ([0-9a-f]{7,}) (.*)", l)
    if m:
        by[m.group(1)].append((m.group(2), re.sub(r"\s+", " ", m.group(3))))
rows = []
for p in sorted(by):
    for c, t in by[p]:
        rows.append("| %s | `%s` | %s |" % (p, c, t[:260].replace("|", "\\|")))
fc = collections.Counter(f["property"] for f in k["findings"])
table = ("%d repairs (`fix:` commits in /repo), %d known findings (%s).\n\n| Prop | commit | what failed (and how it was found) |\n|---|---|---|\n" % (
    len(rows), len(k["findings"]), ", ".join("%s x%d" % kv for kv in sorted(fc.items())))) + "\n".join(rows)
p = os.path.join(H, "DESIGN.md")
s = open(p).read()
a, b = "<!-- FIXTABLE:BEGIN -->", "<!-- FIXTABLE:END -->"
if a in s:
    s = s[: s.index(a) + len(a)] + "\n" + table + "\n" + s[s.index(b):]
    open(p, "w").write(s)
print(len(rows), "rows")
