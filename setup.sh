#!/bin/sh
# Offline setup: install icontract (+deps) beside the repository's interpreter, sanity-import.
set -e
cd "$(dirname "$0")"
if [ ! -d .deps/icontract ]; then
  PIP_NO_INDEX=1 /venv/bin/pip install -q --no-index --find-links /opt/veriftools/wheels --target .deps icontract deal >/dev/null 2>&1 || \
  PIP_NO_INDEX=1 /venv/bin/pip install -q --no-index --find-links /opt/veriftools/wheels --target .deps icontract
fi
PYTHONPATH=/repo/src:$PWD:$PWD/.deps /venv/bin/python -c "import icontract, wikitextprocessor, vf.core.runner; print('setup ok')"
